package c13

import (
	_ "embed"
	"encoding/json"
	"fmt"
	"os"
	"path/filepath"
	"sort"
	"strconv"
	"strings"
	"time"

	"verif/core"
	"verif/gjs"
	"verif/tlcx"
)

//go:embed syncprog.go.txt
var syncProgTemplate string

type opT struct {
	Name string
	A, B int
}

func (o opT) String() string {
	switch o.Name {
	case "Add", "Do", "Load", "Delete", "LoadAndDelete", "Range", "SetNew", "Put":
		return fmt.Sprintf("%s(%d)", o.Name, o.A)
	case "Store", "LoadOrStore", "Swap", "CompareAndDelete":
		return fmt.Sprintf("%s(%d,%d)", o.Name, o.A, o.B)
	case "CompareAndSwap":
		return fmt.Sprintf("%s(%d,%d,%d)", o.Name, o.A, o.B, o.B+1)
	}
	return o.Name
}

// syncCfg is one enumeration: a primitive, an operation alphabet, a history length.
type syncCfg struct {
	Prim   string
	MaxLen int
	Ops    []opT
	Impl   bool // the alphabet exists in nosync: bind to the replacement; otherwise specification vs package sync only
	Procs  int  // guard processes
}

var opCode = map[string]string{"Lock": "cLock", "Unlock": "cUnlock", "TryLock": "cTryLock", "RLock": "cRLock", "RUnlock": "cRUnlock",
	"TryRLock": "cTryRLock", "RLocker.Lock": "cRLLock", "RLocker.Unlock": "cRLUnlock", "Add": "cAdd", "Done": "cDone", "Wait": "cWait",
	"Do": "cDo", "Load": "cLoad", "Store": "cStore", "LoadOrStore": "cLoadOrStore", "LoadAndDelete": "cLoadAndDelete", "Delete": "cDelete",
	"Swap": "cSwap", "CompareAndSwap": "cCAS", "CompareAndDelete": "cCAD", "Range": "cRange", "RangeDel": "cRangeDel", "Clear": "cClear",
	"SetNew": "cSetNew", "Put": "cPut", "Get": "cGet"}

var primKind = map[string]string{"Mutex": "kMutex", "RWMutex": "kRWMutex", "WaitGroup": "kWaitGroup", "Once": "kOnce", "Map": "kMap", "Pool": "kPool"}

func ops(spec ...any) []opT {
	var out []opT
	for i := 0; i < len(spec); {
		o := opT{Name: spec[i].(string)}
		i++
		if i < len(spec) {
			if a, ok := spec[i].(int); ok {
				o.A = a
				i++
				if i < len(spec) {
					if b, ok := spec[i].(int); ok {
						o.B = b
						i++
					}
				}
			}
		}
		out = append(out, o)
	}
	return out
}

func syncCfgs(c *core.Ctx) []syncCfg {
	t := c.Thorough()
	pick := func(q, th int) int {
		if t {
			return th
		}
		return q
	}
	mapOps := ops("Load", 1, "Load", 2, "Load", 0, "Store", 1, 1, "Store", 1, 2, "Store", 2, 1, "Store", 0, 1,
		"LoadOrStore", 1, 3, "LoadOrStore", 2, 3, "LoadOrStore", 0, 3, "Delete", 1, "Delete", 2, "Delete", 0,
		"Range", 0, "Range", 1, "RangeDel")
	mapSmall := ops("Load", 1, "Store", 1, 1, "Store", 2, 1, "LoadOrStore", 1, 3, "Delete", 1, "Range", 0, "Range", 1, "RangeDel")
	mapExt := ops("Load", 1, "Store", 1, 1, "Store", 2, 2, "LoadOrStore", 1, 3, "Delete", 2, "LoadAndDelete", 1, "LoadAndDelete", 0,
		"Swap", 1, 2, "Swap", 2, 1, "Swap", 0, 1, "CompareAndSwap", 1, 1, "CompareAndSwap", 1, 2, "CompareAndSwap", 2, 1, "CompareAndDelete", 1, 2,
		"CompareAndDelete", 2, 2, "Range", 0, "Range", 2, "Clear")
	return []syncCfg{
		{Prim: "Mutex", MaxLen: pick(8, 10), Ops: ops("Lock", "Unlock"), Impl: true, Procs: 1},
		{Prim: "RWMutex", MaxLen: pick(5, 7), Ops: ops("Lock", "Unlock", "RLock", "RUnlock"), Impl: true, Procs: 1},
		{Prim: "WaitGroup", MaxLen: pick(5, 6), Ops: ops("Add", 1, "Add", 2, "Add", -1, "Add", -2, "Done", "Wait"), Impl: true, Procs: 4},
		{Prim: "Once", MaxLen: pick(4, 5), Ops: ops("Do", 1, "Do", 2, "Do", 3, "Do", 4), Impl: true, Procs: 1},
		{Prim: "Map", MaxLen: pick(3, 4), Ops: mapOps, Impl: true, Procs: 4},
		{Prim: "Map", MaxLen: pick(4, 5), Ops: mapSmall, Impl: true, Procs: 4},
		{Prim: "Pool", MaxLen: pick(4, 6), Ops: ops("SetNew", 1, "SetNew", 0, "Put", 1, "Put", 2, "Put", 0, "Get"), Impl: true, Procs: 4},
		// the wider API of package sync: specification against the guard only
		{Prim: "Mutex", MaxLen: pick(5, 8), Ops: ops("Lock", "Unlock", "TryLock"), Procs: 1},
		{Prim: "RWMutex", MaxLen: pick(3, 5), Ops: ops("Lock", "Unlock", "RLock", "RUnlock", "TryLock", "TryRLock", "RLocker.Lock", "RLocker.Unlock"), Procs: 1},
		{Prim: "Map", MaxLen: pick(3, 4), Ops: mapExt, Procs: 4},
	}
}

func tlaOps(os []opT) string {
	var b strings.Builder
	b.WriteString("<<")
	for i, o := range os {
		if i > 0 {
			b.WriteString(", ")
		}
		fmt.Fprintf(&b, "<<%q, %d, %d>>", o.Name, o.A, o.B)
	}
	b.WriteString(">>")
	return b.String()
}

func syncParamsTLA(cfgs []syncCfg) string {
	var b strings.Builder
	b.WriteString("SyncCfgs == <<\n")
	for i, cf := range cfgs {
		if i > 0 {
			b.WriteString(",\n")
		}
		fmt.Fprintf(&b, "  [name |-> %q, maxlen |-> %d, ops |-> %s]", cf.Prim, cf.MaxLen, tlaOps(cf.Ops))
	}
	b.WriteString("\n>>\n")
	return b.String()
}

// progCfg is one configuration inside an executor program.
type progCfg struct {
	cf            *syncCfg
	l             int
	start, stride int
}

// syncProgram renders the executor (nosync variant or package-sync guard variant).
func syncProgram(pcs []progCfg, guard bool) gjs.Prog {
	var b strings.Builder
	b.WriteString("package main\n\n")
	if guard {
		b.WriteString("import (\n\t\"os\"\n\t\"os/exec\"\n\t\"runtime\"\n\t\"strings\"\n\t\"sync\"\n\t\"sync/atomic\"\n\t\"unsafe\"\n)\n\n")
	} else {
		b.WriteString("import sync \"github.com/gopherjs/gopherjs/nosync\"\n\n")
	}
	b.WriteString("var cfgs = []cfgT{\n")
	for _, pc := range pcs {
		fmt.Fprintf(&b, "\t{%s, %d, %d, %d, []op{", primKind[pc.cf.Prim], pc.l, pc.start, pc.stride)
		for i, o := range pc.cf.Ops {
			if i > 0 {
				b.WriteString(", ")
			}
			fmt.Fprintf(&b, "{%s, %d, %d}", opCode[o.Name], o.A, o.B)
		}
		b.WriteString("}},\n")
	}
	b.WriteString("}\n\n")
	keep, drop := "//N", "//G"
	if guard {
		keep, drop = "//G", "//N"
	}
	for _, l := range strings.Split(syncProgTemplate, "\n") {
		switch {
		case strings.HasPrefix(l, drop):
			continue
		case strings.HasPrefix(l, keep):
			l = strings.TrimPrefix(strings.TrimPrefix(l, keep), " ")
		}
		b.WriteString(l)
		b.WriteByte('\n')
	}
	return gjs.Prog{Files: map[string]string{"main.go": b.String()}}
}

// pred is what the specification says about one history.
type pred struct {
	ref  [][]string // allowed outcome sequences of package sync (one, except Pool)
	impl [][]string // allowed outcome sequences of the replacement
}

func outStr(o []int) string {
	s := make([]string, len(o))
	for i, x := range o {
		s[i] = strconv.Itoa(x)
	}
	return strings.Join(s, ",")
}

func histKey(h []int) string {
	s := make([]string, len(h))
	for i, x := range h {
		s[i] = strconv.Itoa(x)
	}
	return strings.Join(s, ".")
}

func parseInts(s string) []int {
	if s == "" {
		return nil
	}
	var out []int
	for _, f := range strings.Split(s, ",") {
		n, err := strconv.Atoi(f)
		if err != nil {
			return nil
		}
		out = append(out, n)
	}
	return out
}

// stepAccepted compares one observed outcome with the predicted one.  Range
// with an early stop is set-valued: any `count` distinct entries of the content.
func stepAccepted(o opT, want, got string) bool {
	if want == got {
		return true
	}
	if o.Name != "Range" {
		return false
	}
	w, g := parseInts(want), parseInts(got)
	if len(w) < 2 || len(g) < 2 || w[0] != g[0] || w[1] != g[1] || len(g) != 2+2*g[1] {
		return false
	}
	content := map[int]int{}
	for i := 2; i+1 < len(w); i += 2 {
		content[w[i]] = w[i+1]
	}
	seen := map[int]bool{}
	for i := 2; i+1 < len(g); i += 2 {
		v, ok := content[g[i]]
		if !ok || v != g[i+1] || seen[g[i]] {
			return false
		}
		seen[g[i]] = true
	}
	return true
}

// firstDiff returns the first step at which got is not accepted by want (-1: accepted).
func firstDiff(cf *syncCfg, h []int, want, got []string) int {
	for i := range want {
		if i >= len(got) {
			return i
		}
		if !stepAccepted(cf.Ops[h[i]-1], want[i], got[i]) {
			return i
		}
	}
	if len(got) != len(want) {
		return len(want)
	}
	return -1
}

// accepted: got matches one of the allowed sequences; otherwise the longest agreeing prefix decides the reported step.
func accepted(cf *syncCfg, h []int, allowed [][]string, got []string) (bool, int, []string) {
	best, bestSeq := -1, []string(nil)
	for _, w := range allowed {
		d := firstDiff(cf, h, w, got)
		if d < 0 {
			return true, -1, w
		}
		if d > best {
			best, bestSeq = d, w
		}
	}
	return false, best, bestSeq
}

func parseHist(s string) []int {
	var h []int
	for _, f := range strings.Split(s, ".") {
		n, _ := strconv.Atoi(f)
		h = append(h, n)
	}
	return h
}

// parseProgLines turns the program's output ("cfg:history|outcome;outcome;") into
// per-configuration maps history key -> outcome list.
func parseProgLines(lines []string, ncfg int) ([]map[string][]string, error) {
	ms := make([]map[string][]string, ncfg)
	for i := range ms {
		ms[i] = map[string][]string{}
	}
	for _, l := range lines {
		i := strings.IndexByte(l, '|')
		j := strings.IndexByte(l, ':')
		if i < 0 || j < 0 || j > i {
			return nil, fmt.Errorf("unexpected output line %.200q", l)
		}
		ci, err := strconv.Atoi(l[:j])
		if err != nil || ci < 0 || ci >= ncfg {
			return nil, fmt.Errorf("unexpected output line %.200q", l)
		}
		ms[ci][l[j+1:i]] = strings.Split(strings.TrimSuffix(l[i+1:], ";"), ";")
	}
	return ms, nil
}

func describe(cf *syncCfg, h []int, upto int) string {
	var s []string
	for i := 0; i <= upto && i < len(h); i++ {
		s = append(s, cf.Ops[h[i]-1].String())
	}
	return strings.Join(s, "; ")
}

var classNames = map[string]string{"0": "returns", "1": "panics", "2": "blocks", "3": "fatal error"}

func className(out string) string {
	f := strings.SplitN(out, ",", 2)
	n := classNames[f[0]]
	if n == "" {
		n = "?" + f[0]
	}
	if len(f) > 1 {
		n += " (" + f[1] + ")"
	}
	return n
}

// runSync is the Mutex/RWMutex/WaitGroup/Once/Map/Pool part. It returns whether
// every configured history was enumerated and executed.
func runSync(c *core.Ctx, pool *gjs.Pool) bool {
	cfgs := syncCfgs(c)
	params := paramsModule(c)
	cfg := "SPECIFICATION Spec\nINVARIANT TypeOK\nINVARIANT NoEffect\nINVARIANT ModesAgree\nINVARIANT MutexInv\nINVARIANT RWInv\nINVARIANT WGInv\nINVARIANT OnceInv\nINVARIANT MapInv\nINVARIANT PoolInv\nINVARIANT Emit\nCHECK_DEADLOCK FALSE\n"
	r, err := tlcx.Run(c, tlcx.Opts{Module: "SyncPrimsScen", Cfg: cfg, Workers: 2, Timeout: 25 * time.Minute, HeapMB: 4096,
		Files: map[string]string{"C13Params.tla": params}})
	if !tlcx.MustComplete(c, r, err, "SyncPrimsScen") {
		return false
	}
	preds := make([]map[string]*pred, len(cfgs))
	for i := range cfgs {
		cf := &cfgs[i]
		m := map[string]*pred{}
		preds[i] = m
		err := decodeLines(filepath.Join(r.Dir, fmt.Sprintf("c13_sync.%d.ndjson", i+1)), func(inner []byte) error {
			var rec struct {
				Pi   int
				Hist []int
				Ref  [][]int
				Impl [][]int
			}
			var raw []json.RawMessage
			if err := json.Unmarshal(inner, &raw); err != nil || len(raw) != 4 {
				return fmt.Errorf("bad record %.100q: %v", inner, err)
			}
			json.Unmarshal(raw[0], &rec.Pi)
			json.Unmarshal(raw[1], &rec.Hist)
			json.Unmarshal(raw[2], &rec.Ref)
			json.Unmarshal(raw[3], &rec.Impl)
			if rec.Pi != i+1 || len(rec.Hist) != cf.MaxLen || len(rec.Ref) != cf.MaxLen || len(rec.Impl) != cf.MaxLen {
				return fmt.Errorf("bad record %.100q", inner)
			}
			k := histKey(rec.Hist)
			p := m[k]
			if p == nil {
				p = &pred{}
				m[k] = p
			}
			rs, is := make([]string, cf.MaxLen), make([]string, cf.MaxLen)
			for j := range rec.Ref {
				rs[j], is[j] = outStr(rec.Ref[j]), outStr(rec.Impl[j])
			}
			p.ref = append(p.ref, rs)
			p.impl = append(p.impl, is)
			return nil
		})
		if err != nil {
			c.Infra(fmt.Errorf("SyncPrimsScen output: %v", err))
			return false
		}
		want := 1
		for j := 0; j < cf.MaxLen; j++ {
			want *= len(cf.Ops)
		}
		if len(m) != want {
			c.Infra(fmt.Errorf("SyncPrimsScen emitted %d histories for configuration %d (%s), want %d", len(m), i+1, cf.Prim, want))
			return false
		}
	}
	if corrupt("sync") {
		// non-vacuity demonstration: falsify ONE predicted outcome of the replacement
		// (Mutex: first step of the all-Lock history "returns" -> "panics")
		k := strings.TrimSuffix(strings.Repeat("1.", cfgs[0].MaxLen), ".")
		preds[0][k].impl[0][0] = "1"
	}
	col := newCollector()
	type result struct {
		guard, native, js map[string][]string
	}
	results := make([]result, len(cfgs))
	var implPCs, allPCs []progCfg
	var implIdx []int
	for i := range cfgs {
		allPCs = append(allPCs, progCfg{&cfgs[i], cfgs[i].MaxLen, 0, 1})
		if cfgs[i].Impl {
			implPCs = append(implPCs, progCfg{&cfgs[i], cfgs[i].MaxLen, 0, 1})
			implIdx = append(implIdx, i)
		}
	}
	// two programs: the package-sync guard (native, several processes) and the
	// nosync executor (GopherJS + native)
	c.ParMap(2, func(which int) {
		t0 := time.Now()
		if which == 0 {
			ms, err := runGuard(c, cfgs, allPCs)
			if err != nil {
				c.Infra(fmt.Errorf("sync guard: %v", err))
				return
			}
			for i := range cfgs {
				results[i].guard = ms[i]
			}
			vlogf("sync guard took %.1fs", time.Since(t0).Seconds())
			return
		}
		prog := syncProgram(implPCs, false)
		b := pool.RunBoth(c.Scratch, prog, gjs.Opts{}, 15*time.Minute, true, false)
		vlogf("nosync executor (gopherjs + native) took %.1fs", time.Since(t0).Seconds())
		if b.BuildErr != nil {
			if be, ok := b.BuildErr.(*gjs.BuildError); ok && be.Panic {
				c.Report(core.Case{Keys: []string{"compiler_panic"}, Summary: "compiler internal error on the nosync history executor: " + be.Error(), Files: prog.ReplayFiles("prog")})
			} else {
				c.Infra(fmt.Errorf("gopherjs build of the nosync executor failed: %v", b.BuildErr))
			}
			return
		}
		if b.NativeErr != "" {
			c.Infra(fmt.Errorf("reference toolchain rejected the nosync executor: %s", b.NativeErr))
			return
		}
		nm, err := parseProgLines(b.Native.Lines, len(implPCs))
		if err != nil || !endedOK(b.Native) {
			c.Infra(fmt.Errorf("native nosync executor: end=%s %s %v", b.Native.End, b.Native.Msg, err))
			return
		}
		for k, i := range implIdx {
			results[i].native = nm[k]
		}
		jm, err := parseProgLines(b.JS.Lines, len(implPCs))
		if err != nil || !endedOK(b.JS) {
			col.fail(&failure{group: "sync-js-abort", keys: []string{"nosync_executor_aborted"},
				summary: fmt.Sprintf("the nosync history executor compiled by GopherJS did not run to completion: end=%s msg=%s err=%v (the same program built by the reference toolchain printed %d lines)", b.JS.End, b.JS.Msg, err, len(b.Native.Lines)),
				files:   prog.ReplayFiles("prog")})
			return
		}
		for k, i := range implIdx {
			results[i].js = jm[k]
		}
	})
	if c.InfraErr != nil {
		return false
	}
	evals, progs, traces := 0, 0, 0
	sampled := 0
	for i := range cfgs {
		cf := &cfgs[i]
		res := results[i]
		keys := make([]string, 0, len(preds[i]))
		for k := range preds[i] {
			keys = append(keys, k)
		}
		sort.Strings(keys)
		for _, k := range keys {
			p := preds[i][k]
			h := parseHist(k)
			evals++
			c.Distinct(fmt.Sprintf("sync/%d/%s", i, k))
			g, ok := res.guard[k]
			if !ok {
				c.Infra(fmt.Errorf("guard printed no line for %s history %s", cf.Prim, k))
				return false
			}
			gok, gd, gw := accepted(cf, h, p.ref, g)
			if !gok {
				col.discard(fmt.Sprintf("%s [%s]: specification says %v, package sync did %v (step %d)", cf.Prim, describe(cf, h, len(h)), gw, g, gd+1))
				continue
			}
			traces++
			if !cf.Impl {
				continue
			}
			for _, side := range []struct {
				name string
				m    map[string][]string
			}{{"native", res.native}, {"gopherjs", res.js}} {
				if side.m == nil {
					continue
				}
				o, ok := side.m[k]
				if !ok {
					c.Infra(fmt.Errorf("nosync executor (%s) printed no line for %s history %s", side.name, cf.Prim, k))
					return false
				}
				traces++
				iok, d, w := accepted(cf, h, p.impl, o)
				if iok {
					continue
				}
				// report the minimal failing prefix
				got, want := "(nothing)", "(nothing)"
				if d < len(o) {
					got = o[d]
				}
				if d < len(w) {
					want = w[d]
				}
				op := cf.Ops[h[d]-1]
				prefix := h[:d+1]
				keys := []string{fmt.Sprintf("nosync:%s:%s:spec=%s:got=%s", cf.Prim, op.String(), want, got)}
				group := fmt.Sprintf("sync/%s/%s", side.name, keys[0])
				idx := 0
				for _, x := range prefix {
					idx = idx*len(cf.Ops) + (x - 1)
				}
				mini := syncProgram([]progCfg{{cf, len(prefix), idx, 1 << 30}}, false)
				files := mini.ReplayFiles("prog")
				files["predicted.txt"] = "0:" + histKey(prefix) + "|" + strings.Join(w[:d+1], ";") + ";\n"
				files["observed.txt"] = "0:" + histKey(prefix) + "|" + strings.Join(o[:minInt(d+1, len(o))], ";") + ";\n"
				files["scenario.json"] = fmt.Sprintf("{\"primitive\":%q,\"history\":%q,\"executor\":%q,\"sync_observed\":%q}\n", cf.Prim, describe(cf, h, d), side.name, strings.Join(g[:d+1], ";"))
				col.fail(&failure{group: group, rank: len(prefix), keys: keys, files: files,
					summary: fmt.Sprintf("nosync.%s (%s) after [%s]: %s %s; the specification requires: %s (package sync on this history: %s)", cf.Prim, side.name, describe(cf, h, d-1), op.String(), className(got), className(want), className(refAt(p, g, d)))})
			}
			if sampled < 2 && i == 1 && strings.Contains(strings.Join(p.ref[0], ";"), "3") && strings.Contains(strings.Join(p.ref[0], ";"), "2") {
				sampled++
				c.Sample(map[string]any{"part": "sync", "primitive": cf.Prim, "history": describe(cf, h, len(h)), "predicted_sync": p.ref[0], "predicted_nosync": p.impl[0], "sync_observed": g, "nosync_native": res.native[k], "nosync_gopherjs": res.js[k]})
			}
		}
	}
	c.Add("evaluations", evals)
	c.Add("programs", progs+3)
	c.Add("traces_validated_against_impl", traces)
	c.Add("sync_histories", evals)
	col.flush(c)
	_ = os.Remove
	return true
}

func refAt(p *pred, guardObs []string, d int) string {
	if d < len(guardObs) {
		return guardObs[d]
	}
	return "?"
}

// runGuard builds the package-sync executor once and runs cf.Procs processes per configuration.
func runGuard(c *core.Ctx, cfgs []syncCfg, pcs []progCfg) ([]map[string][]string, error) {
	prog := syncProgram(pcs, true)
	dir, err := prog.Materialise(c.Scratch)
	if err != nil {
		return nil, err
	}
	defer os.RemoveAll(dir)
	bin := filepath.Join(dir, "guard.bin")
	if r := gjs.NativeBuild(dir, bin); r.ExitCode != 0 || r.Err != nil || r.TimedOut {
		return nil, fmt.Errorf("native build failed: %s %v", r.Out, r.Err)
	}
	type proc struct{ cfg, p, n int }
	var procs []proc
	for i := range cfgs {
		n := cfgs[i].Procs
		if n < 1 {
			n = 1
		}
		for p := 0; p < n; p++ {
			procs = append(procs, proc{i, p, n})
		}
	}
	outs := make([][]string, len(procs))
	errs := make([]error, len(procs))
	sem := make(chan struct{}, 8)
	done := make(chan int, len(procs))
	for k := range procs {
		go func(k int) {
			sem <- struct{}{}
			defer func() { <-sem; done <- k }()
			pr := procs[k]
			r := gjs.NativeRun(bin, 20*time.Minute, nil, strconv.Itoa(pr.cfg), strconv.Itoa(pr.p), strconv.Itoa(pr.n))
			if r.ExitCode != 0 || r.Err != nil || r.TimedOut {
				errs[k] = fmt.Errorf("guard process for %s failed (exit %d timeout=%v): %s", cfgs[pr.cfg].Prim, r.ExitCode, r.TimedOut, tlcx.Tail(r.Out, 5))
				return
			}
			outs[k] = r.Lines()
		}(k)
	}
	for range procs {
		<-done
	}
	var all []string
	for k := range procs {
		if errs[k] != nil {
			return nil, errs[k]
		}
		all = append(all, outs[k]...)
	}
	return parseProgLines(all, len(cfgs))
}

func minInt(a, b int) int {
	if a < b {
		return a
	}
	return b
}
