package c20

import (
	"bytes"
	"encoding/json"
	"fmt"
	"math/rand"
	"os"
	"path/filepath"
	"sort"
	"strings"
	"sync"
	"time"

	"verif/core"
	"verif/gjs"
)

// Round trip and transparency.
//
//  direct:  packages are parsed, stored by the real Store, restored by the real
//           Load in a FRESH process, and the deep dumps (dump.go) of the stored
//           and the restored sources.Sources are compared.
//  session: programs are compiled through build.Session.BuildProject three
//           times - without cache, with an empty cache (every package is
//           stored), and in a fresh process with the filled cache (every
//           package must be restored) - and the JavaScript must be
//           byte-identical; then sources are modified (the touched package and
//           its importers must be re-read, the output must equal a cache-less
//           build of the modified program), and the build tags are changed
//           (nothing may be taken from the entries of the other tag set).
//
// Free-floating comments are not serialised (the serialiser rebuilds
// File.Comments from the comments attached to nodes); that alone does not
// change the JavaScript and is only measured.  Where it does (a //go:linkname
// directive not attached to its declaration) the program no longer compiles to
// the same JavaScript after a restore: classifier floating_linkname_directive_dropped.

type rtStats struct {
	mu        sync.Mutex
	kinds     map[string]int
	packages  int
	programs  int
	floating  int // packages whose restored Comments list is a strict subsequence of the stored one
	builds    int
	evals     int
	hitsWarm  int
	storeCold int
}

func (s *rtStats) addKinds(k map[string]int) {
	s.mu.Lock()
	for n, v := range k {
		s.kinds[n] += v
	}
	s.mu.Unlock()
}

func sections(text string) map[string]string {
	out := map[string]string{}
	cur := ""
	var b strings.Builder
	for _, l := range strings.SplitAfter(text, "\n") {
		if strings.HasPrefix(l, "== ") {
			if cur != "" {
				out[cur] = b.String()
			}
			cur = strings.TrimSpace(strings.TrimPrefix(l, "== "))
			b.Reset()
			continue
		}
		b.WriteString(l)
	}
	if cur != "" {
		out[cur] = b.String()
	}
	return out
}

// isSubsequence: every line of sub occurs in full, in order.
func isSubsequence(sub, full []string) bool {
	i := 0
	for _, l := range full {
		if i < len(sub) && sub[i] == l {
			i++
		}
	}
	return i == len(sub)
}

func commentLines(s string) []string {
	var out []string
	for _, l := range strings.Split(s, "\n") {
		if l != "" && !strings.HasSuffix(l, ": --") {
			out = append(out, l)
		}
	}
	return out
}

// compareDumps classifies the difference of a stored and a restored dump:
// "" (identical), "floating" (only free-floating comments are missing), or a
// description of a real difference.
func compareDumps(storedFile, restoredFile string) (string, string, error) {
	a, err := os.ReadFile(storedFile)
	if err != nil {
		return "", "", err
	}
	b, err := os.ReadFile(restoredFile)
	if err != nil {
		return "", "", err
	}
	if bytes.Equal(a, b) {
		return "", "", nil
	}
	sa, sb := sections(string(a)), sections(string(b))
	for _, sec := range []string{"meta", "ast", "imports"} {
		if sa[sec] != sb[sec] {
			return "differs", sec + ": " + firstDiff(sa[sec], sb[sec]), nil
		}
	}
	ca, cb := commentLines(sa["comments"]), commentLines(sb["comments"])
	if len(cb) < len(ca) && isSubsequence(cb, ca) {
		lost := []string{}
		j := 0
		for _, l := range ca {
			if j < len(cb) && cb[j] == l {
				j++
				continue
			}
			lost = append(lost, l)
		}
		detail := fmt.Sprintf("%d of %d comments are not restored", len(lost), len(ca))
		for _, l := range lost {
			if strings.Contains(l, "//go:linkname") {
				detail += "; among them " + l
				break
			}
		}
		return "floating", detail, nil
	}
	return "differs", "comments: " + firstDiff(sa["comments"], sb["comments"]), nil
}

type directPkg struct {
	name string
	pkg  *pkgT
}

func directPackages(rng *rand.Rand) []directPkg {
	ps := []directPkg{
		{"kinds", kindsPkg("vp/kinds")},
		{"broken", &pkgT{ImportPath: "vp/broken", Dir: "/src/vp/broken", Files: [][2]string{{"broken1.go", badFile1}, {"broken2.go", badFile2}}, AllowBad: true}},
		{"floating", &pkgT{ImportPath: "vp/floating", Dir: "/src/vp/floating", Files: [][2]string{{"main.go", floatingMain}}}},
		{"marker", markerPkg("vp/alpha", 1)},
	}
	files, _ := prog2(rng, 6)
	ps = append(ps, directPkg{"minigo", &pkgT{ImportPath: "vp/minigo", Dir: "/src/vp/minigo", Files: [][2]string{{"main.go", files["main.go"]}, {"helpers.go", files["helpers.go"]}}}})
	return ps
}

func runDirect(c *core.Ctx, w *worker, dp directPkg, st *rtStats) error {
	if err := w.freshDir(); err != nil {
		return err
	}
	d1 := filepath.Join(w.root, "stored.txt")
	d2 := filepath.Join(w.root, "restored.txt")
	o, crashed, err := w.call(req{Op: "store", Cfg: baseCfg, Path: dp.pkg.ImportPath, Time: 3, Pkg: dp.pkg, Mode: "ok", DumpTo: d1})
	if err != nil || crashed || o.Err != "" {
		return fmt.Errorf("direct round trip of %s: store: %v crashed=%v %s", dp.name, err, crashed, o.Err)
	}
	scen := func() map[string]string {
		sj, _ := json.MarshalIndent(map[string]any{"kind": "roundtrip", "mode": "direct", "name": dp.name, "pkg": dp.pkg}, "", " ")
		return map[string]string{"scenario.json": string(sj)}
	}
	st.mu.Lock()
	st.evals++
	st.packages++
	st.mu.Unlock()
	c.Distinct("direct|" + dp.name)
	if !o.Ret || o.Panic != "" {
		c.Report(core.Case{Keys: []string{"store_fails:" + dp.name, "store_fails"}, Summary: fmt.Sprintf("Store of package %s returned %v (panic %q)", dp.name, o.Ret, o.Panic), Files: scen()})
		return nil
	}
	st.addKinds(o.Kinds)
	w.stop() // the restore happens in a fresh process
	l, crashed, err := w.call(req{Op: "load", Cfg: baseCfg, Path: dp.pkg.ImportPath, Time: 3, DumpTo: d2})
	if err != nil || crashed || l.Err != "" {
		return fmt.Errorf("direct round trip of %s: load: %v crashed=%v %s", dp.name, err, crashed, l.Err)
	}
	if !l.Ret || l.Panic != "" {
		c.Report(core.Case{Keys: []string{"roundtrip_miss:" + dp.name, "roundtrip_miss"}, Summary: fmt.Sprintf("package %s was stored, Load in a fresh process returned %v (panic %q)", dp.name, l.Ret, l.Panic), Files: scen()})
		return nil
	}
	if l.Hash == o.Hash {
		return nil
	}
	cls, detail, err := compareDumps(d1, d2)
	if err != nil {
		return err
	}
	switch cls {
	case "floating":
		st.mu.Lock()
		st.floating++
		st.mu.Unlock()
	case "differs":
		c.Report(core.Case{Keys: []string{"roundtrip_differs:" + dp.name, "roundtrip_differs"}, Summary: fmt.Sprintf("package %s restored from the cache differs from what was stored: %s", dp.name, detail), Files: scen()})
	}
	return nil
}

// ---------------------------------------------------------------------------
// session round trip
// ---------------------------------------------------------------------------

type buildObs struct {
	ok     bool
	err    string
	js     []byte
	events []event
	kinds  map[string]int
}

func (w *worker) build(dir string, useCache bool, tags []string, dumpDir string) (buildObs, error) {
	out := filepath.Join(w.root, "out.js")
	os.Remove(out)
	o, crashed, err := w.call(req{Op: "build", Dir: dir, Out: out, UseCache: useCache, Tags: tags, DumpDir: dumpDir})
	if err != nil || crashed {
		return buildObs{}, fmt.Errorf("build: %v crashed=%v", err, crashed)
	}
	b := buildObs{ok: o.Ret, err: o.Err + o.Panic, events: o.Events, kinds: o.Kinds}
	if o.Ret {
		b.js, err = os.ReadFile(out)
		if err != nil {
			return b, err
		}
	}
	return b, nil
}

func eventsBy(evs []event, kind string) map[string]event {
	m := map[string]event{}
	for _, e := range evs {
		if e.Kind == kind {
			m[e.Path] = e
		}
	}
	return m
}

type sessionProg struct {
	name    string
	files   map[string]string
	touch   string            // file to modify, "" = none
	touched map[string]string // its new content
	stale   []string          // import paths that must be re-read after the touch
	tags    bool              // also run the tag-set variation
}

func runSession(c *core.Ctx, w *worker, sp sessionProg, st *rtStats) error {
	if err := w.freshDir(); err != nil {
		return err
	}
	dir, err := gjs.Prog{Files: sp.files}.Materialise(w.root)
	if err != nil {
		return err
	}
	defer os.RemoveAll(dir)
	dumps := filepath.Join(w.root, "dumps")
	os.RemoveAll(dumps)
	defer os.RemoveAll(dumps)
	scen := func(extra string) map[string]string {
		sj, _ := json.MarshalIndent(map[string]any{"kind": "roundtrip", "mode": "session", "name": sp.name, "files": sp.files, "touch": sp.touch, "touched": sp.touched, "stale": sp.stale, "tags": sp.tags}, "", " ")
		return map[string]string{"scenario.json": string(sj), "detail.txt": extra}
	}
	count := func(n int) {
		st.mu.Lock()
		st.evals += n
		st.mu.Unlock()
	}
	c.Distinct("session|" + sp.name)
	st.mu.Lock()
	st.programs++
	st.mu.Unlock()

	report := func(stem, summary, extra string) {
		c.Report(core.Case{Keys: []string{stem + ":" + sp.name, stem}, Summary: "program " + sp.name + ": " + summary, Files: scen(extra)})
	}

	// reference: no cache
	ref, err := w.build(dir, false, nil, "")
	if err != nil {
		return err
	}
	if !ref.ok {
		return fmt.Errorf("program %s does not compile without the cache: %s", sp.name, ref.err)
	}
	// cold: empty cache, every package is stored
	cold, err := w.build(dir, true, nil, filepath.Join(dumps, "cold"))
	if err != nil {
		return err
	}
	st.addKinds(cold.kinds)
	count(1)
	if !cold.ok || !bytes.Equal(cold.js, ref.js) {
		report("js_differs_with_empty_cache", fmt.Sprintf("the build with an empty cache differs from the build without cache (ok=%v %s)", cold.ok, cold.err), "")
		return nil
	}
	stores := eventsBy(cold.events, "store")
	for p, e := range eventsBy(cold.events, "load") {
		count(1)
		if e.Ret {
			report("hit_in_empty_cache", fmt.Sprintf("Load(%q) hit in an empty cache", p), "")
			return nil
		}
	}
	for p, e := range stores {
		if !e.Ret {
			report("store_fails", fmt.Sprintf("Store(%q) returned false", p), "")
			return nil
		}
	}
	st.mu.Lock()
	st.storeCold += len(stores)
	st.packages += len(stores)
	st.mu.Unlock()
	// warm: a fresh process, every package is restored
	w.stop()
	warm, err := w.build(dir, true, nil, filepath.Join(dumps, "warm"))
	if err != nil {
		return err
	}
	loads := eventsBy(warm.events, "load")
	var paths []string
	for p := range stores {
		paths = append(paths, p)
	}
	sort.Strings(paths)
	lostLinkname := ""
	for _, p := range paths {
		count(2)
		l, ok := loads[p]
		if !ok || !l.Ret {
			report("roundtrip_miss", fmt.Sprintf("package %q was stored by the first build; the second build (fresh process, unchanged sources) did not restore it (load event: %v)", p, ok), "")
			return nil
		}
		st.mu.Lock()
		st.hitsWarm++
		st.mu.Unlock()
		if l.Hash == stores[p].Hash {
			continue
		}
		cls, detail, err := compareDumps(filepath.Join(dumps, "cold", "store", dumpName(p)), filepath.Join(dumps, "warm", "load", dumpName(p)))
		if err != nil {
			return err
		}
		switch cls {
		case "floating":
			st.mu.Lock()
			st.floating++
			st.mu.Unlock()
			if strings.Contains(detail, "//go:linkname") {
				lostLinkname = fmt.Sprintf("package %q: %s", p, detail)
			}
		case "differs":
			report("roundtrip_differs", fmt.Sprintf("package %q restored from the cache differs from what was stored: %s", p, detail), "")
			return nil
		}
	}
	count(1)
	if !warm.ok || !bytes.Equal(warm.js, ref.js) {
		what := fmt.Sprintf("compiled from restored sources the program differs from the compile from fresh sources (restored build ok=%v %s)", warm.ok, warm.err)
		if lostLinkname != "" {
			c.Report(core.Case{Keys: []string{"floating_linkname_directive_dropped"}, Summary: "program " + sp.name + ": " + what + "; " + lostLinkname, Files: scen(lostLinkname)})
		} else {
			report("js_differs_after_restore", what, "")
		}
		return nil
	}
	// touch: modified sources
	if sp.touch != "" {
		for f, content := range sp.touched {
			p := filepath.Join(dir, f)
			if err := os.WriteFile(p, []byte(content), 0o644); err != nil {
				return err
			}
			now := time.Now()
			if err := os.Chtimes(p, now, now); err != nil {
				return err
			}
		}
		ref2, err := w.build(dir, false, nil, "")
		if err != nil {
			return err
		}
		if !ref2.ok {
			return fmt.Errorf("program %s (modified) does not compile without the cache: %s", sp.name, ref2.err)
		}
		if bytes.Equal(ref2.js, ref.js) {
			return fmt.Errorf("program %s: the modification does not change the JavaScript", sp.name)
		}
		w.stop()
		mod, err := w.build(dir, true, nil, "")
		if err != nil {
			return err
		}
		count(1)
		if !mod.ok || !bytes.Equal(mod.js, ref2.js) {
			what := "still the old program"
			if !bytes.Equal(mod.js, ref.js) {
				what = "neither the old nor the new program"
			}
			report("stale_after_touch", fmt.Sprintf("after %s was modified the build with the cache yields %s (ok=%v %s)", sp.touch, what, mod.ok, mod.err), "")
			return nil
		}
		ml := eventsBy(mod.events, "load")
		staleSet := map[string]bool{}
		for _, p := range sp.stale {
			staleSet[p] = true
		}
		for _, p := range paths {
			count(1)
			e, ok := ml[p]
			switch {
			case !ok:
				report("load_not_attempted", fmt.Sprintf("no Load for %q in the build after the modification", p), "")
				return nil
			case staleSet[p] && e.Ret:
				report("stale_hit", fmt.Sprintf("%q depends on the modified sources and was restored from the cache", p), "")
				return nil
			case !staleSet[p] && !e.Ret:
				report("lost_entry", fmt.Sprintf("%q does not depend on the modified sources and was not restored", p), "")
				return nil
			}
		}
		ref = ref2
	}
	// another tag set: nothing of the first may be used, the result must equal the cache-less build
	if sp.tags {
		tags := []string{"vtag"}
		refT, err := w.build(dir, false, tags, "")
		if err != nil {
			return err
		}
		if !refT.ok {
			return fmt.Errorf("program %s does not compile with tags %v: %s", sp.name, tags, refT.err)
		}
		if bytes.Equal(refT.js, ref.js) {
			return fmt.Errorf("program %s: the build tag does not change the JavaScript", sp.name)
		}
		w.stop()
		t1, err := w.build(dir, true, tags, "")
		if err != nil {
			return err
		}
		count(1)
		if !t1.ok || !bytes.Equal(t1.js, refT.js) {
			report("other_key_content", fmt.Sprintf("with build tags %v and a cache filled under no tags the output differs from the cache-less build (ok=%v %s)", tags, t1.ok, t1.err), "")
			return nil
		}
		for p, e := range eventsBy(t1.events, "load") {
			count(1)
			if e.Ret {
				report("other_key_content", fmt.Sprintf("Load(%q) under build tags %v hit an entry stored without tags", p, tags), "")
				return nil
			}
		}
		w.stop()
		t2, err := w.build(dir, true, tags, "")
		if err != nil {
			return err
		}
		count(1)
		if !t2.ok || !bytes.Equal(t2.js, refT.js) {
			report("js_differs_after_restore", fmt.Sprintf("second build with tags %v differs (ok=%v %s)", tags, t2.ok, t2.err), "")
			return nil
		}
		for p, e := range eventsBy(t2.events, "load") {
			count(1)
			if !e.Ret {
				report("roundtrip_miss", fmt.Sprintf("Load(%q) under tags %v missed after a build that stored it", p, tags), "")
				return nil
			}
		}
		// and back: the entries without tags are still there and still right
		w.stop()
		back, err := w.build(dir, true, nil, "")
		if err != nil {
			return err
		}
		count(1)
		if !back.ok || !bytes.Equal(back.js, ref.js) {
			report("other_key_content", fmt.Sprintf("back without tags the output differs from the cache-less build (ok=%v %s)", back.ok, back.err), "")
			return nil
		}
	}
	return nil
}

func sessionPrograms(c *core.Ctx, rng *rand.Rand) []sessionProg {
	p2, _ := prog2(rng, c.Pick(30, 300))
	ps := []sessionProg{
		{name: "kinds_std", files: prog1(1), touch: "sub/sub.go", touched: map[string]string{"sub/sub.go": subSrc(2)}, stale: []string{"vp/sub", "."}, tags: true},
		{name: "minigo", files: p2},
		{name: "detached_linkname", files: prog3()},
	}
	if c.Thorough() {
		for i := 0; i < 6; i++ {
			pi, _ := prog2(rng, 100)
			ps = append(ps, sessionProg{name: fmt.Sprintf("minigo%d", i+2), files: pi})
		}
	}
	return ps
}

func runRoundTrip(c *core.Ctx, wp *workerPool) bool {
	rng := rand.New(rand.NewSource(c.Seed ^ 0x20c20))
	st := &rtStats{kinds: map[string]int{}}
	dps := directPackages(rng)
	sps := sessionPrograms(c, rng)
	var first error
	var mu sync.Mutex
	fail := func(err error) {
		mu.Lock()
		if first == nil {
			first = err
		}
		mu.Unlock()
	}
	c.ParMap(len(dps)+len(sps), func(i int) {
		w := wp.get()
		defer wp.put(w)
		if i < len(dps) {
			if err := runDirect(c, w, dps[i], st); err != nil {
				w.stop()
				fail(err)
			}
			return
		}
		if err := runSession(c, w, sps[i-len(dps)], st); err != nil {
			w.stop()
			fail(err)
		}
	})
	if first != nil {
		c.Infra(first)
		return false
	}
	var missing []string
	seen := 0
	for _, k := range allNodeKinds {
		if st.kinds[k] > 0 {
			seen++
		} else {
			missing = append(missing, k)
		}
	}
	c.Add("evaluations", st.evals)
	c.Set("roundtrip_packages", st.packages)
	c.Set("programs", st.programs)
	c.Set("roundtrip_packages_restored_in_fresh_process", st.hitsWarm)
	c.Set("packages_with_unrestored_floating_comments", st.floating)
	c.Set("ast_node_kinds_seen", fmt.Sprintf("%d of %d", seen, len(allNodeKinds)))
	c.Set("ast_node_kinds_missing", missing)
	c.Set("ast_nodes_stored", st.kinds)
	return true
}

func replayRoundTrip(c *core.Ctx, wp *workerPool, b []byte) {
	var sc struct {
		Mode    string            `json:"mode"`
		Name    string            `json:"name"`
		Pkg     *pkgT             `json:"pkg"`
		Files   map[string]string `json:"files"`
		Touch   string            `json:"touch"`
		Touched map[string]string `json:"touched"`
		Stale   []string          `json:"stale"`
		Tags    bool              `json:"tags"`
	}
	if err := json.Unmarshal(b, &sc); err != nil {
		c.Infra(err)
		return
	}
	st := &rtStats{kinds: map[string]int{}}
	w := wp.get()
	defer wp.put(w)
	var err error
	if sc.Mode == "direct" {
		err = runDirect(c, w, directPkg{sc.Name, sc.Pkg}, st)
	} else {
		err = runSession(c, w, sessionProg{name: sc.Name, files: sc.Files, touch: sc.Touch, touched: sc.Touched, stale: sc.Stale, tags: sc.Tags}, st)
	}
	if err != nil {
		c.Infra(err)
	}
	c.Add("evaluations", st.evals)
}
