package c20

import (
	"encoding/json"
	"fmt"
	"math/rand"
	"os"
	"strings"
	"sync"
	"sync/atomic"

	"verif/core"
)

// The damage sweep: one entry is stored by the real Store, then its file is
// truncated at EVERY byte offset and corrupted by single-bit flips and byte
// replacements; after each change the real Load runs.  The independent guard
// (verifyEntry) decides whether the changed file is still intact; the damage
// kind of the specification follows from the guard and the region, the
// predicted Load result for the kind is taken from the histories of
// CacheScen.tla (store; damage kind; load).

type sweepCase struct {
	Type string `json:"type"` // cut | bit | byte
	Pos  int    `json:"pos"`
	Bit  uint   `json:"bit,omitempty"`
	Val  byte   `json:"val,omitempty"`
}

func (sc sweepCase) apply(data []byte) []byte {
	switch sc.Type {
	case "cut":
		return append([]byte{}, data[:sc.Pos]...)
	case "bit":
		d := append([]byte{}, data...)
		d[sc.Pos] ^= 1 << sc.Bit
		return d
	default:
		d := append([]byte{}, data...)
		d[sc.Pos] = sc.Val
		return d
	}
}

// kindOf maps a concrete damage to the damage kind of the specification.
func (sc sweepCase) kindOf(n int, intact bool) string {
	if intact {
		return "slack"
	}
	switch sc.Type {
	case "cut":
		switch {
		case sc.Pos == 0:
			return "cut0"
		case sc.Pos < 10:
			return "cuthdr"
		case sc.Pos >= n-8:
			return "cuttail"
		}
		return "cutmid"
	default:
		switch {
		case sc.Pos < 10:
			return "cuthdr" // a damaged gzip header: same class as a header cut short
		case sc.Pos >= n-8:
			return "trailer"
		}
		return "payload"
	}
}

var sweepCfg = baseCfg

const sweepPath = "vp/alpha"

// damagePred is filled by runHistories: damage kind -> predicted Load result
// (0 miss, 1 hit) of the history store(a,p1,ok); damage(a,p1,kind).
var damagePred = map[string]int{}

// referenceDamagePred is what Cache.tla says (used by replays of recorded
// sweep cases, which do not run TLC): damaged -> miss, intact -> hit.
func referenceDamagePred() {
	for _, k := range []string{"payload", "trailer", "cut0", "cuthdr", "cutmid", "cuttail"} {
		damagePred[k] = 0
	}
	damagePred["slack"] = 1
}

func collectDamagePred(all []*historyT) {
	for _, h := range all {
		if h.Unit != 0 || len(h.Steps) != 2 {
			continue
		}
		a, b := h.Steps[0].Op, h.Steps[1].Op
		if a.Kind == "store" && a.CI == 1 && a.PI == 1 && a.Arg == "ok" && b.Kind == "damage" && b.CI == 1 && b.PI == 1 {
			damagePred[b.Arg] = h.Steps[1].Probes[0]
		}
	}
}

type sweepEntry struct {
	name string
	pkg  *pkgT
	data []byte // the stored file
	orig []byte // its decompressed content
	hash string // dump hash of the stored package
}

// prepare stores the entry through w and returns the path of its file.
func (e *sweepEntry) prepare(w *worker) (string, error) {
	if err := w.freshDir(); err != nil {
		return "", err
	}
	o, crashed, err := w.call(req{Op: "store", Cfg: sweepCfg, Path: sweepPath, Time: 5, Pkg: e.pkg, Mode: "ok"})
	if err != nil || crashed || o.Err != "" || !o.Ret {
		return "", fmt.Errorf("sweep: storing the entry failed: %v crashed=%v %s ret=%v", err, crashed, o.Err, o.Ret)
	}
	l := w.list()
	if len(l.final) != 1 || len(l.temps) != 0 {
		return "", fmt.Errorf("sweep: expected one file after Store, found %d final and %d temporary", len(l.final), len(l.temps))
	}
	for _, p := range l.final {
		data, err := os.ReadFile(p)
		if err != nil {
			return "", err
		}
		if e.data == nil {
			payload, verr := verifyEntry(data)
			if verr != nil {
				return "", fmt.Errorf("sweep: the freshly stored entry does not verify: %v", verr)
			}
			e.data, e.orig, e.hash = data, payload, o.Hash
		}
		return p, nil
	}
	return "", nil
}

type sweepOutcome struct {
	kind, obs string
	want      int
	ok        bool
	detail    string
}

func sweepOne(w *worker, file string, e *sweepEntry, sc sweepCase) (sweepOutcome, error) {
	d := sc.apply(e.data)
	payload, verr := verifyEntry(d)
	intact := verr == nil && string(payload) == string(e.orig)
	kind := sc.kindOf(len(e.data), intact)
	want, ok := damagePred[kind]
	if !ok {
		return sweepOutcome{}, fmt.Errorf("no prediction for damage kind %q in the enumerated histories", kind)
	}
	if err := os.WriteFile(file, d, 0o644); err != nil {
		return sweepOutcome{}, err
	}
	o, crashed, err := w.call(req{Op: "load", Cfg: sweepCfg, Path: sweepPath, Time: 5})
	out := sweepOutcome{kind: kind, want: want}
	switch {
	case crashed:
		return out, fmt.Errorf("child exited with the crash status during Load")
	case err != nil && strings.Contains(err.Error(), errChildDied.Error()):
		out.obs = "died"
		out.detail = err.Error()
	case err != nil:
		return out, err
	case o.Err != "":
		return out, fmt.Errorf("child: %s", o.Err)
	case o.Panic != "":
		out.obs = "panic"
		out.detail = o.Panic
	case o.Ret && o.Hash == e.hash:
		out.obs = "hit_same"
	case o.Ret:
		out.obs = "hit_altered"
		out.detail = fmt.Sprintf("restored import path %q marker %q", o.IPath, o.Marker)
	default:
		out.obs = "miss"
	}
	out.ok = (want == 1 && out.obs == "hit_same") || (want == 0 && out.obs == "miss")
	return out, nil
}

func sweepKeys(out sweepOutcome) []string {
	switch out.obs {
	case "hit_same":
		return []string{"damaged_hit_same_content:" + out.kind}
	case "hit_altered":
		return []string{"damaged_hit_altered_content:" + out.kind}
	case "panic":
		return []string{"damaged_load_panics:" + out.kind}
	case "died":
		return []string{"damaged_load_kills_process:" + out.kind}
	}
	return []string{"intact_entry_missed:" + out.kind}
}

func runSweep(c *core.Ctx, wp *workerPool) bool {
	for _, k := range []string{"slack", "payload", "trailer", "cut0", "cuthdr", "cutmid", "cuttail"} {
		if _, ok := damagePred[k]; !ok {
			c.Infra(fmt.Errorf("sweep: the histories carry no prediction for damage kind %q", k))
			return false
		}
	}
	rng := rand.New(rand.NewSource(c.Seed ^ 0x5eed20))
	entries := []*sweepEntry{{name: "small", pkg: markerPkg(sweepPath, 1)}}
	if c.Thorough() {
		entries = append(entries, &sweepEntry{name: "large", pkg: kindsPkg(sweepPath)})
	}
	w0 := wp.get()
	for _, e := range entries {
		if _, err := e.prepare(w0); err != nil {
			wp.put(w0)
			c.Infra(err)
			return false
		}
	}
	wp.put(w0)
	type job struct {
		e  *sweepEntry
		sc sweepCase
	}
	var jobs []job
	sizes := map[string]int{}
	for ei, e := range entries {
		n := len(e.data)
		sizes[e.name] = n
		for o := 0; o < n; o++ { // truncation at every byte offset
			jobs = append(jobs, job{e, sweepCase{Type: "cut", Pos: o}})
		}
		allBits := c.Thorough() && ei == 0
		if allBits {
			for p := 0; p < n; p++ {
				for b := uint(0); b < 8; b++ {
					jobs = append(jobs, job{e, sweepCase{Type: "bit", Pos: p, Bit: b}})
				}
			}
		} else {
			seen := map[[2]int]bool{}
			for k := 0; k < c.Pick(1200, 2500); k++ {
				p, b := rng.Intn(n), rng.Intn(8)
				if seen[[2]int{p, b}] {
					continue
				}
				seen[[2]int{p, b}] = true
				jobs = append(jobs, job{e, sweepCase{Type: "bit", Pos: p, Bit: uint(b)}})
			}
			// every bit of the header and of the trailer
			for _, p := range append(seq(0, 10), seq(n-8, n)...) {
				for b := 0; b < 8; b++ {
					if !seen[[2]int{p, b}] {
						jobs = append(jobs, job{e, sweepCase{Type: "bit", Pos: p, Bit: uint(b)}})
					}
				}
			}
		}
		for k := 0; k < c.Pick(300, 900); k++ {
			p := rng.Intn(n)
			v := byte(rng.Intn(256))
			if v == e.data[p] {
				v ^= 0xff
			}
			jobs = append(jobs, job{e, sweepCase{Type: "byte", Pos: p, Val: v}})
		}
	}
	// chunks: each worker prepares the entry once per chunk
	const chunk = 400
	nchunks := (len(jobs) + chunk - 1) / chunk
	var mu sync.Mutex
	stats := map[string]int{}
	var infra atomic.Value
	c.ParMap(nchunks, func(ci int) {
		if infra.Load() != nil {
			return
		}
		w := wp.get()
		defer wp.put(w)
		var cur *sweepEntry
		var file string
		for _, j := range jobs[ci*chunk : imin(len(jobs), (ci+1)*chunk)] {
			if j.e != cur {
				p, err := j.e.prepare(w)
				if err != nil {
					infra.Store(err)
					return
				}
				cur, file = j.e, p
			}
			out, err := sweepOne(w, file, j.e, j.sc)
			if err != nil {
				w.stop()
				infra.Store(err)
				return
			}
			c.Distinct(fmt.Sprintf("sweep|%s|%v", j.e.name, j.sc))
			mu.Lock()
			stats[j.sc.Type+":"+out.kind+":"+out.obs]++
			mu.Unlock()
			if out.ok {
				continue
			}
			wantText := map[int]string{0: "miss", 1: "hit"}[out.want]
			scen := map[string]any{"kind": "sweep", "pkg": j.e.pkg, "case": j.sc}
			sj, _ := json.MarshalIndent(scen, "", " ")
			c.Report(core.Case{
				Keys: sweepKeys(out),
				Summary: fmt.Sprintf("entry %s (%d bytes), %s at byte %d (bit %d, value %d): the guard classifies the file as %s, the specification says Load = %s, observed %s %s",
					j.e.name, len(j.e.data), j.sc.Type, j.sc.Pos, j.sc.Bit, j.sc.Val, out.kind, wantText, out.obs, out.detail),
				Files: map[string]string{"scenario.json": string(sj)},
			})
		}
	})
	if e := infra.Load(); e != nil {
		c.Infra(e.(error))
		return false
	}
	c.Add("evaluations", len(jobs))
	c.Set("sweep_cases", len(jobs))
	c.Set("sweep_entry_bytes", sizes)
	c.Set("sweep_outcomes", stats)
	return true
}

func imin(a, b int) int {
	if a < b {
		return a
	}
	return b
}

func seq(lo, hi int) []int {
	var s []int
	for i := lo; i < hi; i++ {
		if i >= 0 {
			s = append(s, i)
		}
	}
	return s
}

func replaySweep(c *core.Ctx, wp *workerPool, b []byte) {
	var sc struct {
		Pkg  *pkgT     `json:"pkg"`
		Case sweepCase `json:"case"`
	}
	if err := json.Unmarshal(b, &sc); err != nil {
		c.Infra(err)
		return
	}
	referenceDamagePred()
	e := &sweepEntry{name: "replay", pkg: sc.Pkg}
	w := wp.get()
	defer wp.put(w)
	file, err := e.prepare(w)
	if err != nil {
		c.Infra(err)
		return
	}
	out, err := sweepOne(w, file, e, sc.Case)
	if err != nil {
		c.Infra(err)
		return
	}
	c.Add("evaluations", 1)
	if !out.ok {
		c.Report(core.Case{Keys: sweepKeys(out), Summary: fmt.Sprintf("replayed %v: kind %s, observed %s %s", sc.Case, out.kind, out.obs, out.detail),
			Files: map[string]string{"scenario.json": string(b)}})
	}
}
