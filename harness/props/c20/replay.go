package c20

import (
	"encoding/json"
	"fmt"
	"math/rand"
	"os"
	"sort"
	"strings"

	"verif/core"
)

// ---------------------------------------------------------------------------
// units: pairs of concrete configurations and import paths
// ---------------------------------------------------------------------------

var pathNames = []string{"", "vp/alpha", "vp/beta", "vp/alpha_test", "vp/alpha/sub"}
var xtestOf = []int{0, 0, 1, 0} // xtestOf[p-1]: path 3 is the external test package of path 1

type unitT struct {
	Name string `json:"name"`
	A    cfgT   `json:"a"`
	B    cfgT   `json:"b"`
	P    [2]int `json:"p"` // path ids
	// indices into the configuration table of the specification
	ai, bi int
}

var baseCfg = cfgT{GOOS: "js", GOARCH: "ecmascript", GOROOT: "/usr/local/go", GOPATH: "/home/u/go",
	Tags: []string{"netgo", "purego"}, Version: "1.20.1+go1.20.14", Tested: ""}

func with(f func(c *cfgT)) cfgT {
	c := baseCfg
	c.Tags = append([]string{}, baseCfg.Tags...)
	f(&c)
	return c
}

func units() []*unitT {
	us := []*unitT{
		{Name: "goos", A: baseCfg, B: with(func(c *cfgT) { c.GOOS = "linux" }), P: [2]int{1, 2}},
		{Name: "goarch", A: baseCfg, B: with(func(c *cfgT) { c.GOARCH = "wasm" }), P: [2]int{1, 4}},
		{Name: "goroot", A: baseCfg, B: with(func(c *cfgT) { c.GOROOT = "/usr/local/go2" }), P: [2]int{1, 2}},
		{Name: "gopath", A: baseCfg, B: with(func(c *cfgT) { c.GOPATH = "/home/u/go:/opt/go" }), P: [2]int{1, 4}},
		{Name: "tags_joined", A: baseCfg, B: with(func(c *cfgT) { c.Tags = []string{"netgo,purego"} }), P: [2]int{1, 2}},
		{Name: "tags_subset", A: baseCfg, B: with(func(c *cfgT) { c.Tags = []string{"netgo"} }), P: [2]int{1, 2}},
		{Name: "tags_quoted", A: with(func(c *cfgT) { c.Tags = []string{"a", "b"} }), B: with(func(c *cfgT) { c.Tags = []string{`a", "b`} }), P: [2]int{1, 4}},
		{Name: "version", A: baseCfg, B: with(func(c *cfgT) { c.Version = "1.20.1+go1.20.15" }), P: [2]int{1, 2}},
		{Name: "tested", A: baseCfg, B: with(func(c *cfgT) { c.Tested = pathNames[1] }), P: [2]int{1, 3}},
		{Name: "tested_other", A: baseCfg, B: with(func(c *cfgT) { c.Tested = pathNames[1] }), P: [2]int{1, 2}},
		{Name: "swapped_roots", A: with(func(c *cfgT) { c.GOROOT, c.GOPATH = "/x", "/y" }), B: with(func(c *cfgT) { c.GOROOT, c.GOPATH = "/y", "/x" }), P: [2]int{1, 2}},
		{Name: "field_boundary", A: with(func(c *cfgT) { c.GOARCH, c.GOROOT = `a", GOROOT:"b`, "c" }), B: with(func(c *cfgT) { c.GOARCH, c.GOROOT = "a", `b", GOROOT:"c` }), P: [2]int{1, 2}},
		// a GOROOT with a ".." segment that climbs above the root (it names /x)
		{Name: "goos_under_dotdot_goroot", A: with(func(c *cfgT) { c.GOROOT = "/../x" }), B: with(func(c *cfgT) { c.GOROOT, c.GOOS = "/../x", "linux" }), P: [2]int{1, 2}},
	}
	return us
}

// abstractCfgs interns the field values of all configurations: equal integers
// in the specification <=> equal field values here.
func abstractCfgs(us []*unitT) []map[string]int {
	var table []map[string]int
	intern := map[string]map[string]int{}
	id := func(field, v string) int {
		m := intern[field]
		if m == nil {
			m = map[string]int{}
			intern[field] = m
		}
		if _, ok := m[v]; !ok {
			m[v] = len(m) + 1
		}
		return m[v]
	}
	seen := map[string]int{}
	add := func(c cfgT) int {
		tested := 0
		for i, n := range pathNames {
			if i > 0 && n == c.Tested {
				tested = i
			}
		}
		if c.Tested != "" && tested == 0 {
			panic("tested package must be one of the path names")
		}
		rec := map[string]int{"goos": id("goos", c.GOOS), "goarch": id("goarch", c.GOARCH), "goroot": id("goroot", c.GOROOT),
			"gopath": id("gopath", c.GOPATH), "tags": id("tags", strings.Join(c.Tags, "\x00")), "version": id("version", c.Version), "tested": tested}
		k := fmt.Sprint(rec)
		if i, ok := seen[k]; ok {
			return i
		}
		table = append(table, rec)
		seen[k] = len(table)
		return len(table)
	}
	for _, u := range us {
		u.ai, u.bi = add(u.A), add(u.B)
	}
	return table
}

// ---------------------------------------------------------------------------
// histories
// ---------------------------------------------------------------------------

type opT struct {
	Kind string // store damage touch
	CI   int    // 1 = a, 2 = b
	PI   int    // 1, 2: index into the unit's paths
	Arg  string
}

func (o opT) String() string {
	switch o.Kind {
	case "touch":
		return fmt.Sprintf("touch(p%d)", o.PI)
	default:
		return fmt.Sprintf("%s(%s,p%d,%s)", o.Kind, map[int]string{1: "a", 2: "b"}[o.CI], o.PI, o.Arg)
	}
}

type stepT struct {
	Op     opT
	Ret    string
	Probes [4]int
	NF, NT int
	DM     [4]int
}

type historyT struct {
	Unit  int    // index into units
	Slots [4]int // Slots[k]: index (0-based) of the first pair naming the same file as pair k
	Steps []stepT
	key   string
}

func slotOf(h *historyT, ci, pi int) int { return h.Slots[(ci-1)*2+pi-1] }

func decodeHistory(raw json.RawMessage) (*historyT, error) {
	var inner string
	if err := json.Unmarshal(raw, &inner); err != nil {
		return nil, err
	}
	var top []json.RawMessage
	if err := json.Unmarshal([]byte(inner), &top); err != nil || len(top) != 3 {
		return nil, fmt.Errorf("bad history line %q: %v", inner, err)
	}
	h := &historyT{}
	if err := json.Unmarshal(top[0], &h.Unit); err != nil {
		return nil, err
	}
	h.Unit--
	var slots []int
	if err := json.Unmarshal(top[1], &slots); err != nil || len(slots) != 4 {
		return nil, fmt.Errorf("bad slots in %q", inner)
	}
	for k, s := range slots {
		h.Slots[k] = s - 1
	}
	var steps [][]json.RawMessage
	if err := json.Unmarshal(top[2], &steps); err != nil {
		return nil, err
	}
	var kb strings.Builder
	fmt.Fprintf(&kb, "%d", h.Unit)
	for _, st := range steps {
		if len(st) != 3 {
			return nil, fmt.Errorf("bad step in %q", inner)
		}
		var op []any
		if err := json.Unmarshal(st[0], &op); err != nil || len(op) != 4 {
			return nil, fmt.Errorf("bad op in %q", inner)
		}
		var s stepT
		s.Op = opT{Kind: op[0].(string), CI: int(op[1].(float64)), PI: int(op[2].(float64)), Arg: op[3].(string)}
		if err := json.Unmarshal(st[1], &s.Ret); err != nil {
			return nil, err
		}
		var view []json.RawMessage
		if err := json.Unmarshal(st[2], &view); err != nil || len(view) != 4 {
			return nil, fmt.Errorf("bad view in %q", inner)
		}
		var pr, dm []int
		if err := json.Unmarshal(view[0], &pr); err != nil || len(pr) != 4 {
			return nil, fmt.Errorf("bad probes in %q", inner)
		}
		json.Unmarshal(view[1], &s.NF)
		json.Unmarshal(view[2], &s.NT)
		if err := json.Unmarshal(view[3], &dm); err != nil || len(dm) != 4 {
			return nil, fmt.Errorf("bad dm in %q", inner)
		}
		copy(s.Probes[:], pr)
		copy(s.DM[:], dm)
		h.Steps = append(h.Steps, s)
		kb.WriteString("|" + s.Op.String())
	}
	h.key = kb.String()
	return h, nil
}

// maximal drops every history that is a proper prefix of another one.
func maximal(hs []*historyT) []*historyT {
	sort.Slice(hs, func(i, j int) bool { return hs[i].key < hs[j].key })
	var out []*historyT
	for i, h := range hs {
		if i+1 < len(hs) && strings.HasPrefix(hs[i+1].key, h.key+"|") {
			continue
		}
		out = append(out, h)
	}
	return out
}

// ---------------------------------------------------------------------------
// the packages stored by histories
// ---------------------------------------------------------------------------

// markerPkg is the package written by the n-th store operation of a history.
func markerPkg(importPath string, n int) *pkgT {
	name := importPath[strings.LastIndex(importPath, "/")+1:]
	src := fmt.Sprintf(`// Package %[1]s is stored by store operation %[2]d.
package %[1]s

import "unsafe"

// Marker identifies the content.
const Marker = "%[3]s#%[2]d"

// T carries a few node kinds.
type T struct {
	a, b int32 // fields
	p    unsafe.Pointer
}

// F does something with n.
func F(t *T, xs ...int) (r int) {
	for i, x := range xs {
		if x > %[2]d {
			r += i * x
		} else {
			r -= int(t.a)
		}
	}
	return r
}
`, name, n, importPath)
	return &pkgT{ImportPath: importPath, Dir: "/src/" + importPath, Files: [][2]string{{name + ".go", src}}}
}

var pairsCP = [4][2]int{{1, 1}, {1, 2}, {2, 1}, {2, 2}}

var rank = map[string]int{"none": 0, "slack": 0, "trailer": 1, "cuttail": 2, "payload": 3, "cutmid": 4, "cuthdr": 5, "cut0": 6}

// ---------------------------------------------------------------------------
// damage on real files
// ---------------------------------------------------------------------------

// applyDamage changes the file in the way the damage kind says and returns a
// description. The guard decides afterwards whether the file still verifies.
func applyDamage(path, kind string, rng *rand.Rand, orig []byte) (string, error) {
	data, err := os.ReadFile(path)
	if err != nil {
		return "", err
	}
	n := len(data)
	flip := func(lo, hi int) (string, error) { // a bit in [lo, hi)
		if hi > n {
			hi = n
		}
		if lo < 0 {
			lo = 0
		}
		if lo >= hi {
			return "nothing to flip (file too short)", nil
		}
		// take the first position from a seeded start whose flip makes the guard fail
		start := lo + rng.Intn(hi-lo)
		bit := uint(rng.Intn(8))
		for k := 0; k < hi-lo; k++ {
			pos := lo + (start-lo+k)%(hi-lo)
			d := append([]byte{}, data...)
			d[pos] ^= 1 << bit
			payload, verr := verifyEntry(d)
			if verr != nil || (orig != nil && string(payload) != string(orig)) || kind == "slack" {
				return fmt.Sprintf("bit %d of byte %d/%d flipped", bit, pos, n), os.WriteFile(path, d, 0o644)
			}
		}
		return "no damaging position found", nil
	}
	cut := func(to int) (string, error) {
		if to > n {
			to = n
		}
		if to < 0 {
			to = 0
		}
		return fmt.Sprintf("truncated from %d to %d bytes", n, to), os.Truncate(path, int64(to))
	}
	switch kind {
	case "slack":
		return flip(4, 10) // MTIME, XFL, OS of the gzip header
	case "payload":
		return flip(10, n-8)
	case "trailer":
		return flip(n-8, n)
	case "cut0":
		return cut(0)
	case "cuthdr":
		return cut(1 + rng.Intn(9))
	case "cutmid":
		if n <= 20 {
			return cut(n / 2)
		}
		return cut(10 + rng.Intn(n-18))
	case "cuttail":
		if n < 9 {
			return cut(n - 1)
		}
		return cut(n - 1 - rng.Intn(8))
	}
	return "", fmt.Errorf("unknown damage kind %q", kind)
}

// ---------------------------------------------------------------------------
// replay of one history
// ---------------------------------------------------------------------------

type mismatch struct {
	step    int
	what    string   // classifier stem
	keys    []string // classifier keys, most specific first
	detail  string
	diverge bool // the directory state may differ from the model's from here on
}

type replayStats struct {
	evals, loads, stores, crashes, damages int
}

func (u *unitT) cfg(ci int) cfgT {
	if ci == 1 {
		return u.A
	}
	return u.B
}

// replayHistory runs the history on the real cache through w and returns the
// mismatches between prediction and observation (at most one diverging one).
func replayHistory(w *worker, u *unitT, h *historyT, seed int64, stats *replayStats) ([]mismatch, []string, error) {
	if err := w.freshDir(); err != nil {
		return nil, nil, err
	}
	rng := rand.New(rand.NewSource(seed))
	var log []string
	var out []mismatch
	now := int64(1)
	src := map[int]int64{1: 1, 2: 1}
	nstore := 0
	hashOf := map[string]int{}    // dump hash -> store ordinal
	cfgOf := map[int]int{}        // store ordinal -> ci
	fileOf := map[int]string{}    // file slot -> final file path, learned from the directory
	origOf := map[string][]byte{} // file path -> decompressed bytes when it was last written
	worst := map[string]string{}  // file path -> worst damage kind since it was written
	mis := func(step int, what, detail string, diverge bool) {
		keys := []string{what + ":" + u.Name, what}
		out = append(out, mismatch{step: step, what: what, keys: keys, detail: detail, diverge: diverge})
	}
	for si, st := range h.Steps {
		path := pathNames[u.P[st.Op.PI-1]]
		before := w.list()
		log = append(log, fmt.Sprintf("step %d: %s", si+1, st.Op))
		switch st.Op.Kind {
		case "store":
			nstore++
			pk := markerPkg(path, nstore)
			s, err := pk.parse()
			if err != nil {
				return nil, log, err
			}
			hashOf[dumpSources(s).hash()] = nstore
			cfgOf[nstore] = st.Op.CI
			o, crashed, err := w.call(req{Op: "store", Cfg: u.cfg(st.Op.CI), Path: path, Time: now, Pkg: pk, Mode: st.Op.Arg})
			if err != nil {
				return nil, log, err
			}
			if o.Err != "" {
				return nil, log, fmt.Errorf("child: %s", o.Err)
			}
			stats.stores++
			obs := "false"
			switch {
			case crashed:
				obs = "crash"
				stats.crashes++
			case o.Panic != "":
				obs = "panic: " + o.Panic
			case o.Ret:
				obs = "true"
			}
			log = append(log, fmt.Sprintf("  Store returned %s (predicted %s)", obs, st.Ret))
			stats.evals++
			if obs != st.Ret {
				what := "store_result"
				if st.Ret == "false" && u.cfg(st.Op.CI).Tested != "" {
					what = "test_package_stored"
				}
				mis(si, what, fmt.Sprintf("%s: Store returned %s, the specification says %s", st.Op, obs, st.Ret), true)
				return out, log, nil
			}
		case "damage":
			f := fileOf[slotOf(h, st.Op.CI, st.Op.PI)]
			if f == "" {
				mis(si, "dir_listing", fmt.Sprintf("%s: the specification says the entry is visible, no file was seen for it", st.Op), true)
				return out, log, nil
			}
			desc, err := applyDamage(f, st.Op.Arg, rng, origOf[f])
			if err != nil {
				return nil, log, err
			}
			stats.damages++
			if rank[st.Op.Arg] > rank[worst[f]] {
				worst[f] = st.Op.Arg
			}
			log = append(log, "  "+desc)
		case "touch":
			now++
			src[st.Op.PI] = now
		}
		after := w.list()
		// learn the file of the key when a rename became visible
		if st.Op.Kind == "store" && (st.Ret == "true" || (st.Ret == "crash" && st.Op.Arg == "renamed")) {
			var fresh []string
			for n, p := range after.final {
				if _, ok := before.final[n]; !ok {
					fresh = append(fresh, p)
				}
			}
			k := slotOf(h, st.Op.CI, st.Op.PI)
			switch {
			case len(fresh) == 1:
				fileOf[k] = fresh[0]
			case len(fresh) > 1:
				mis(si, "dir_listing", fmt.Sprintf("%s: %d new final files appeared", st.Op, len(fresh)), true)
				return out, log, nil
			}
			if f := fileOf[k]; f != "" {
				if data, err := os.ReadFile(f); err == nil {
					if payload, verr := verifyEntry(data); verr == nil {
						origOf[f] = payload
					}
				}
				delete(worst, f)
			}
		}
		// directory listing
		stats.evals++
		if len(after.final) != st.NF || len(after.temps) != st.NT || len(after.other) != 0 {
			mis(si, "dir_listing", fmt.Sprintf("after %s the cache directory holds %d final / %d temporary / %d other files, the specification says %d / %d / 0",
				st.Op, len(after.final), len(after.temps), len(after.other), st.NF, st.NT), true)
			return out, log, nil
		}
		// every visible entry that the environment did not damage is complete
		damaged := map[string]bool{}
		for k, cp := range pairsCP {
			if st.DM[k] == 2 {
				damaged[fileOf[slotOf(h, cp[0], cp[1])]] = true
			}
		}
		var names []string
		for n := range after.final {
			names = append(names, n)
		}
		sort.Strings(names)
		for _, n := range names {
			p := after.final[n]
			if damaged[p] {
				continue
			}
			stats.evals++
			data, err := os.ReadFile(p)
			if err != nil {
				return nil, log, err
			}
			if _, verr := verifyEntry(data); verr != nil {
				mis(si, "visible_entry_incomplete", fmt.Sprintf("after %s the final-name file %s (%d bytes) does not verify: %v", st.Op, n[:12], len(data), verr), true)
				return out, log, nil
			}
		}
		// the four loads
		for k, cp := range pairsCP {
			ci, pi := cp[0], cp[1]
			lp := pathNames[u.P[pi-1]]
			o, crashed, err := w.call(req{Op: "load", Cfg: u.cfg(ci), Path: lp, Time: src[pi]})
			stats.loads++
			stats.evals++
			obs := 0
			obsText := "miss"
			switch {
			case crashed:
				return nil, log, fmt.Errorf("child exited with the crash status during Load")
			case err != nil && strings.Contains(err.Error(), errChildDied.Error()):
				obs, obsText = -3, "the process died: "+err.Error()
			case err != nil:
				return nil, log, err
			case o.Err != "":
				return nil, log, fmt.Errorf("child: %s", o.Err)
			case o.Panic != "":
				obs, obsText = -2, "panic: "+o.Panic
			case o.Ret:
				if n, ok := hashOf[o.Hash]; ok {
					obs, obsText = n, fmt.Sprintf("hit(store %d)", n)
				} else {
					obs, obsText = -1, fmt.Sprintf("hit with content that no store wrote (import path %q, marker %q)", o.IPath, o.Marker)
				}
			}
			want := st.Probes[k]
			if obs == want {
				continue
			}
			wantText := "miss"
			if want > 0 {
				wantText = fmt.Sprintf("hit(store %d)", want)
			}
			detail := fmt.Sprintf("after %s: Load(%s, %q, srcModTime=%d) = %s, the specification says %s",
				st.Op, map[int]string{1: "a", 2: "b"}[ci], lp, src[pi], obsText, wantText)
			log = append(log, "  "+detail)
			f := fileOf[slotOf(h, ci, pi)]
			switch {
			case st.DM[k] == 2 && want == 0:
				// the environment damaged this file: the finding-F14 family
				what := "damaged_hit_same_content"
				switch {
				case obs == -1:
					what = "damaged_hit_altered_content"
				case obs == -2:
					what = "damaged_load_panics"
				case obs == -3:
					what = "damaged_load_kills_process"
				}
				out = append(out, mismatch{step: si, what: what, keys: []string{what + ":" + worst[f]}, detail: detail + " (file damage: " + worst[f] + ")"})
			case want == 0 && obs > 0 && u.cfg(ci).Tested != "" && (u.cfg(ci).Tested == lp || u.cfg(ci).Tested+"_test" == lp):
				mis(si, "test_package_loaded", detail, false)
			case want == 0 && obs > 0 && cfgOf[obs] != ci && st.DM[k] == 0:
				mis(si, "other_key_content", detail, false)
			case want == 0 && obs > 0:
				mis(si, "stale_hit", detail, false)
			case want > 0 && obs == 0:
				mis(si, "lost_entry", detail, false)
			case want > 0 && obs > 0:
				mis(si, "wrong_version", detail, false)
			default:
				mis(si, "load_error", detail, false)
			}
		}
		if len(out) > 0 && out[len(out)-1].diverge {
			return out, log, nil
		}
	}
	return out, log, nil
}

// reportHistory turns the mismatches of one history into reports.
func reportHistory(c *core.Ctx, u *unitT, h *historyT, ms []mismatch, log []string, seed int64) {
	if len(ms) == 0 {
		return
	}
	// one report per distinct classifier stem
	seen := map[string]bool{}
	for _, m := range ms {
		if seen[m.keys[0]] {
			continue
		}
		seen[m.keys[0]] = true
		scen := map[string]any{"kind": "history", "unit": u, "slots": h.Slots, "history": h.Steps, "seed": seed}
		sj, _ := json.MarshalIndent(scen, "", " ")
		c.Report(core.Case{
			Keys:    m.keys,
			Summary: fmt.Sprintf("unit %s, history %s, step %d: %s", u.Name, strings.TrimPrefix(h.key, fmt.Sprint(h.Unit)+"|"), m.step+1, m.detail),
			Files:   map[string]string{"scenario.json": string(sj), "log.txt": strings.Join(log, "\n") + "\n"},
		})
	}
}
