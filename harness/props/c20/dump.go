package c20

import (
	"crypto/sha256"
	"encoding/hex"
	"fmt"
	"go/ast"
	"go/token"
	"reflect"
	"sort"
	"strings"

	"github.com/gopherjs/gopherjs/compiler/sources"
)

// A deep structural dump of a sources.Sources: every exported field of every
// AST node, positions resolved through the file set to "file:offset", the
// reconstructed Imports and Comments lists, the package meta data and the
// JavaScript files.  The fields the serialiser drops on purpose (Ident.Obj,
// File.Scope, File.Unresolved - deprecated resolver data) are left out; nil
// and empty slices are the same (gob does not distinguish them).
//
// The dump has four sections so that a difference can be classified:
// meta, ast, imports, comments.

type srcDump struct {
	Meta, AST, Imports, Comments string
}

func (d srcDump) hash() string {
	h := sha256.New()
	for _, s := range []string{d.Meta, "\x00", d.AST, "\x00", d.Imports, "\x00", d.Comments} {
		h.Write([]byte(s))
	}
	return hex.EncodeToString(h.Sum(nil)[:16])
}

func (d srcDump) text() string {
	return "== meta\n" + d.Meta + "== ast\n" + d.AST + "== imports\n" + d.Imports + "== comments\n" + d.Comments
}

type dumper struct {
	b    strings.Builder
	fset *token.FileSet
	seen map[uintptr]int
	n    int
}

func (d *dumper) pos(p token.Pos) string {
	if !p.IsValid() {
		return "-"
	}
	if d.fset == nil {
		return fmt.Sprintf("#%d", int(p))
	}
	f := d.fset.File(p)
	if f == nil {
		return fmt.Sprintf("?%d", int(p))
	}
	return fmt.Sprintf("%s:%d", f.Name(), f.Offset(p))
}

var posType = reflect.TypeOf(token.NoPos)

func (d *dumper) value(v reflect.Value, ind string) {
	switch v.Kind() {
	case reflect.Interface:
		if v.IsNil() {
			d.b.WriteString("nil\n")
			return
		}
		d.value(v.Elem(), ind)
	case reflect.Ptr:
		if v.IsNil() {
			d.b.WriteString("nil\n")
			return
		}
		switch v.Interface().(type) {
		case *ast.Object, *ast.Scope:
			d.b.WriteString("(resolver data)\n")
			return
		}
		if n, ok := d.seen[v.Pointer()]; ok {
			fmt.Fprintf(&d.b, "@%d\n", n)
			return
		}
		d.n++
		d.seen[v.Pointer()] = d.n
		d.b.WriteString("&")
		d.value(v.Elem(), ind)
	case reflect.Slice:
		if v.Len() == 0 {
			d.b.WriteString("[]\n")
			return
		}
		fmt.Fprintf(&d.b, "[%d]\n", v.Len())
		for i := 0; i < v.Len(); i++ {
			fmt.Fprintf(&d.b, "%s  %d: ", ind, i)
			d.value(v.Index(i), ind+"  ")
		}
	case reflect.Struct:
		t := v.Type()
		fmt.Fprintf(&d.b, "%s\n", t.String())
		for i := 0; i < t.NumField(); i++ {
			f := t.Field(i)
			if !f.IsExported() {
				continue
			}
			switch f.Name {
			case "Obj", "Scope", "Unresolved":
				continue
			}
			if t == reflect.TypeOf(ast.File{}) && (f.Name == "Comments" || f.Name == "Imports") {
				continue // dumped separately
			}
			fmt.Fprintf(&d.b, "%s  %s: ", ind, f.Name)
			d.value(v.Field(i), ind+"  ")
		}
	case reflect.String:
		fmt.Fprintf(&d.b, "%q\n", v.String())
	default:
		if v.Type() == posType {
			d.b.WriteString(d.pos(token.Pos(v.Int())) + "\n")
			return
		}
		fmt.Fprintf(&d.b, "%v\n", v.Interface())
	}
}

func dumpSources(s *sources.Sources) srcDump {
	var out srcDump
	var m strings.Builder
	fmt.Fprintf(&m, "ImportPath %q\nDir %q\nFiles %d\n", s.ImportPath, s.Dir, len(s.Files))
	for _, js := range s.JSFiles {
		fmt.Fprintf(&m, "JS %q %d %x\n", js.Path, js.ModTime.UnixNano(), sha256.Sum256(js.Content))
	}
	if s.FileSet != nil {
		var fl []string
		s.FileSet.Iterate(func(f *token.File) bool {
			fl = append(fl, fmt.Sprintf("fsetfile %q base=%d size=%d lines=%d", f.Name(), f.Base(), f.Size(), f.LineCount()))
			return true
		})
		sort.Strings(fl)
		m.WriteString(strings.Join(fl, "\n") + "\n")
	}
	out.Meta = m.String()
	var a, im, cm strings.Builder
	for i, f := range s.Files {
		d := &dumper{fset: s.FileSet, seen: map[uintptr]int{}}
		fmt.Fprintf(&d.b, "file %d: ", i)
		d.value(reflect.ValueOf(f), "")
		a.WriteString(d.b.String())
		for _, is := range f.Imports {
			name := ""
			if is.Name != nil {
				name = is.Name.Name
			}
			fmt.Fprintf(&im, "file %d: %s %q %s\n", i, d.pos(is.Pos()), name, is.Path.Value)
		}
		for _, cg := range f.Comments {
			for _, c := range cg.List {
				fmt.Fprintf(&cm, "file %d: %s %q\n", i, d.pos(c.Slash), c.Text)
			}
			fmt.Fprintf(&cm, "file %d: --\n", i)
		}
	}
	out.AST, out.Imports, out.Comments = a.String(), im.String(), cm.String()
	return out
}

// nodeKinds counts the dynamic types of all AST nodes of the sources.
func nodeKinds(s *sources.Sources, into map[string]int) {
	for _, f := range s.Files {
		ast.Inspect(f, func(n ast.Node) bool {
			if n != nil {
				into[strings.TrimPrefix(reflect.TypeOf(n).String(), "*ast.")]++
			}
			return true
		})
		// free-floating comments are not reached by Inspect
		for _, cg := range f.Comments {
			_ = cg
		}
	}
}

// allNodeKinds is every concrete node type of go/ast that can occur below a File.
var allNodeKinds = []string{
	"ArrayType", "AssignStmt", "BadDecl", "BadExpr", "BadStmt", "BasicLit", "BinaryExpr", "BlockStmt", "BranchStmt",
	"CallExpr", "CaseClause", "ChanType", "CommClause", "Comment", "CommentGroup", "CompositeLit", "DeclStmt", "DeferStmt",
	"Ellipsis", "EmptyStmt", "ExprStmt", "Field", "FieldList", "File", "ForStmt", "FuncDecl", "FuncLit", "FuncType",
	"GenDecl", "GoStmt", "Ident", "IfStmt", "ImportSpec", "IncDecStmt", "IndexExpr", "IndexListExpr", "InterfaceType",
	"KeyValueExpr", "LabeledStmt", "MapType", "ParenExpr", "RangeStmt", "ReturnStmt", "SelectStmt", "SelectorExpr",
	"SendStmt", "SliceExpr", "StarExpr", "StructType", "SwitchStmt", "TypeAssertExpr", "TypeSpec", "TypeSwitchStmt",
	"UnaryExpr", "ValueSpec",
}

// firstDiff returns the first differing line of two texts.
func firstDiff(a, b string) string {
	la, lb := strings.Split(a, "\n"), strings.Split(b, "\n")
	for i := 0; i < len(la) || i < len(lb); i++ {
		var x, y string
		if i < len(la) {
			x = la[i]
		}
		if i < len(lb) {
			y = lb[i]
		}
		if x != y {
			return fmt.Sprintf("line %d: stored %q / restored %q", i+1, strings.TrimSpace(x), strings.TrimSpace(y))
		}
	}
	return ""
}
