// Package c20 decides C20 (see DESIGN.md section 4). Not built yet.
package c20
