// Package c20 decides C20 (the build cache is transparent, never stale and
// tolerates damage).
//
// spec/Cache.tla is a state machine of the cache directory (final and temporary
// files; Store as CreateTemp -> Write -> Close -> Rename with a crash after any
// step; damage by the environment; source modification; Load).  TLC checks on
// it that the operational Load agrees with the declarative statement of the
// property in every reachable state (and that five seeded wrong variants of the
// model are rejected).  spec/CacheScen.tla enumerates histories with the
// predicted outcome of every operation, of every Load and of the directory
// listing; this package replays them on the real cache.BuildCache of /repo in
// child processes whose cache root lies in the scratch directory - crashes are
// real process deaths at the fail points of Store - and compares.  A damage
// sweep truncates one stored entry at every byte offset and flips bits in it;
// a round trip stores, restores and compiles real packages through the build
// session and requires byte-identical JavaScript.
package c20

import (
	"encoding/json"
	"fmt"
	"os"
	"path/filepath"
	"sort"
	"strings"
	"sync"
	"sync/atomic"
	"time"

	"verif/core"
	"verif/gjs"
	"verif/reg"
	"verif/tlcx"
)

func init() { reg.Register("C20", "model_checking", Run) }

var invariants = []string{"LoadIffSpec", "NeverOtherKey", "NoPartial", "TestNever", "VisibleComplete"}

func modelCfg() string {
	s := "SPECIFICATION Spec\n"
	for _, i := range invariants {
		s += "INVARIANT " + i + "\n"
	}
	return s + "CHECK_DEADLOCK FALSE\n"
}

// modelParams are the bounds of the TLC run on Cache.tla itself: the base
// configuration, one that differs in the version, one that differs in the
// tested package; a package, its external test package and (thorough) a third.
func modelParams(c *core.Ctx, variant string) map[string]any {
	cfg := func(version, tested int) map[string]int {
		return map[string]int{"goos": 1, "goarch": 1, "goroot": 1, "gopath": 1, "tags": 1, "version": version, "tested": tested}
	}
	p := map[string]any{
		"cfgs":   []any{cfg(1, 0), cfg(2, 0), cfg(1, 1)},
		"npaths": 2, "xtest": []int{0, 1}, "variant": variant,
		"procs": 2, "maxStores": 2, "maxTime": 2, "maxDamage": 1,
	}
	if c.Thorough() && variant == "ref" {
		p["maxStores"], p["maxTime"] = 3, 3
	}
	return p
}

// workerPool hands out workers.
type workerPool struct {
	ch  chan *worker
	all []*worker
}

func newWorkerPool(scratch string, n int) (*workerPool, error) {
	p := &workerPool{ch: make(chan *worker, n)}
	for i := 0; i < n; i++ {
		w, err := newWorker(scratch, i)
		if err != nil {
			return nil, err
		}
		p.all = append(p.all, w)
		p.ch <- w
	}
	return p, nil
}

func (p *workerPool) get() *worker  { return <-p.ch }
func (p *workerPool) put(w *worker) { p.ch <- w }
func (p *workerPool) close() {
	for _, w := range p.all {
		w.close()
	}
}

// Run is the C20 check.
func Run(c *core.Ctx, pool *gjs.Pool) {
	c.Assumef("a crash is the death of the storing process (os.Exit at a fail point of Store, in the middle of the serialiser for `writing`); loss of data that the operating system had accepted (power failure) is not modelled")
	c.Assumef("damage is judged by an independent guard: a file is intact iff it is a gzip stream that decompresses to its end with matching CRC-32 and size to the bytes that were stored; flipped bits that leave it intact (MTIME/XFL/OS bytes of the gzip header) must still hit")
	c.Assumef("the configuration key is (GOOS, GOARCH, GOROOT, GOPATH, BuildTags, Version); TestedPackage is not part of it: it only excludes that package and its _test package (as the property text says)")
	c.Assumef("concurrent stores are checked on the model only (two processes); replays are sequential with crashes")
	if rp := os.Getenv("VERIF_REPLAY"); rp != "" {
		replayDir(c, rp)
		return
	}
	var checker []string
	// development aid: VERIF_C20_ONLY=model,histories,sweep,roundtrip restricts the phases (the evidence then says so)
	only := os.Getenv("VERIF_C20_ONLY")
	phase := func(p string) bool { return only == "" || strings.Contains(only, p) }
	if only != "" {
		c.Set("phases_restricted_to", only)
	}
	if phase("model") && !runModel(c, &checker) {
		return
	}
	c.Phase("model")

	wp, err := newWorkerPool(c.Scratch, c.Workers)
	if err != nil {
		c.Infra(err)
		return
	}
	defer wp.close()

	// 2. histories
	if phase("histories") {
		if !runHistories(c, wp, &checker) {
			return
		}
	} else {
		referenceDamagePred()
	}
	c.Phase("histories")

	// 3. damage sweep
	if phase("sweep") && !runSweep(c, wp) {
		return
	}
	c.Phase("sweep")

	// 4. round trip and transparency
	if phase("roundtrip") && !runRoundTrip(c, wp) {
		return
	}
	c.Phase("roundtrip")

	c.Set("checker_cmd", strings.Join(checker, "; "))
	c.Set("child_processes", int(atomic.LoadInt64(&spawns)))
	c.Set("real_crashes", int(atomic.LoadInt64(&crashes)))
	c.Set("traces_validated_against_impl", c.Get("histories_replayed"))
	c.Set("rule", "histories: every history of CacheScen.tla over {store x 7 modes, damage x 7 kinds, touch} per unit (pair of configurations x pair of import paths), complete to the depth given in histories_complete_depth and seed-sampled beyond; a maximal history counts once as distinct; evaluations = compared Store results + directory listings + guard checks of visible files + Load results. sweep: one case per (entry, truncation offset) and per (entry, flipped bit / replaced byte). roundtrip: one case per stored and restored package and per compiled program")
}

// runModel checks Cache.tla itself and requires the wrong variants to be rejected.
func runModel(c *core.Ctx, checkerp *[]string) bool {
	checker := *checkerp
	defer func() { *checkerp = checker }()
	pj, _ := json.Marshal(modelParams(c, "ref"))
	r, err := tlcx.Run(c, tlcx.Opts{Module: "Cache", Cfg: modelCfg(), Workers: 8, Timeout: 25 * time.Minute, Files: map[string]string{"c20_params.json": string(pj)}})
	if !tlcx.MustComplete(c, r, err, "Cache (reference semantics)") {
		return false
	}
	c.Set("model_states", r.Distinct)
	checker = append(checker, "tlc Cache (INVARIANTS "+strings.Join(invariants, ", ")+")")
	variants := []string{"inplace", "dropfield", "staleinv", "notest", "nocrc"}
	rejected := make([]string, len(variants))
	c.ParMap(len(variants), func(i int) {
		pj, _ := json.Marshal(modelParams(c, variants[i]))
		r, err := tlcx.Run(c, tlcx.Opts{Module: "Cache", Cfg: modelCfg(), Workers: 2, Timeout: 10 * time.Minute, HeapMB: 2048, Files: map[string]string{"c20_params.json": string(pj)}})
		if err != nil {
			c.Infra(err)
			return
		}
		if r.Violated == "" || r.Violated == "error" || r.Violated == "deadlock" {
			c.Infra(fmt.Errorf("the seeded wrong model variant %q is not rejected by the invariants (violated=%q completed=%v)\n%s", variants[i], r.Violated, r.Completed, tlcx.Tail(r.Output, 30)))
			return
		}
		rejected[i] = variants[i] + ":" + r.Violated
	})
	if c.InfraErr != nil {
		return false
	}
	c.Set("model_variants_rejected", rejected)
	checker = append(checker, "tlc Cache with variant in {inplace, dropfield, staleinv, notest, nocrc}: an invariant must be violated")
	return true
}

type thresholds struct {
	L int
	// per sampling class (1: the units enumerated completely to depth 2, 2: the others)
	ThrN, ThrC [][]int
}

func historyBounds(c *core.Ctx) thresholds {
	if c.Thorough() {
		return thresholds{L: 5,
			// (reduced after a thorough run did not finish within 50 minutes on a loaded machine)
			ThrN: [][]int{{1000, 600, 80, 40, 30}, {1000, 200, 60, 30, 25}},
			ThrC: [][]int{{1000, 200, 40, 30, 25}, {600, 80, 30, 20, 20}}}
	}
	return thresholds{L: 4,
		ThrN: [][]int{{1000, 1000, 30, 40}, {1000, 80, 40, 30}},
		ThrC: [][]int{{1000, 60, 30, 30}, {300, 40, 20, 20}}}
}

// fullUnits are enumerated with the thresholds of class 1.
var fullUnits = map[string]bool{"goos": true, "tested": true}

func runHistories(c *core.Ctx, wp *workerPool, checker *[]string) bool {
	us := units()
	table := abstractCfgs(us)
	b := historyBounds(c)
	var urecs []map[string]int
	for _, u := range us {
		cls := 2
		if fullUnits[u.Name] {
			cls = 1
		}
		urecs = append(urecs, map[string]int{"a": u.ai, "b": u.bi, "p1": u.P[0], "p2": u.P[1], "cls": cls})
	}
	params := map[string]any{
		"cfgs": table, "npaths": len(pathNames) - 1, "xtest": []int{0, 0, 1, 0}, "variant": "ref",
		"procs": 1, "maxStores": 0, "maxTime": 0, "maxDamage": 0,
		"units": urecs, "L": b.L, "thrN": b.ThrN, "thrC": b.ThrC, "seed": int(c.Seed % 1000000), "out": "scen",
	}
	pj, _ := json.Marshal(params)
	cfg := "SPECIFICATION SpecS\nINVARIANT ProbeOK\nINVARIANT Emit\nCHECK_DEADLOCK FALSE\n"
	r, err := tlcx.Run(c, tlcx.Opts{Module: "CacheScen", Cfg: cfg, Workers: 8, Timeout: 25 * time.Minute, Files: map[string]string{"c20_params.json": string(pj)}, HeapMB: 8192})
	if !tlcx.MustComplete(c, r, err, "CacheScen") {
		return false
	}
	*checker = append(*checker, "tlc CacheScen (INVARIANT ProbeOK: operational Load = declarative specification on every history state; INVARIANT Emit)")
	files, _ := filepath.Glob(filepath.Join(r.Dir, "scen.*.ndjson"))
	sort.Strings(files)
	var all []*historyT
	for _, f := range files {
		err := tlcx.ReadNDJSON(f, func(raw json.RawMessage) error {
			h, err := decodeHistory(raw)
			if err != nil {
				return err
			}
			all = append(all, h)
			return nil
		})
		if err != nil {
			c.Infra(fmt.Errorf("decode %s: %v", filepath.Base(f), err))
			return false
		}
	}
	if len(all) != r.Distinct-len(us) {
		c.Infra(fmt.Errorf("CacheScen wrote %d histories, TLC reports %d states beyond the %d initial ones", len(all), r.Distinct-len(us), len(us)))
		return false
	}
	collectDamagePred(all)
	hs := maximal(all)
	complete := map[string]int{}
	for cls, name := range []string{"units goos, tested", "other units"} {
		for d := 0; d < b.L && b.ThrN[cls][d] == 1000; d++ {
			complete[name+" (non-crashing operations)"] = d + 1
		}
		for d := 0; d < b.L && b.ThrN[cls][d] == 1000 && b.ThrC[cls][d] == 1000; d++ {
			complete[name+" (all operations)"] = d + 1
		}
	}
	c.Set("histories_enumerated", len(all))
	c.Set("histories_complete_depth", complete)
	c.Set("history_max_length", b.L)
	c.Set("units", len(us))
	c.Set("exhaustive", false)
	c.Phase("tlc_histories")

	if os.Getenv("VERIF_C20_CORRUPT") == "pred" {
		// sensitivity demonstration: falsify one predicted Load result
		for _, h := range hs {
			if h.Steps[0].Probes[0] > 0 {
				h.Steps[0].Probes[0] = 0
				break
			}
		}
	}

	var mu sync.Mutex
	var total replayStats
	lens := map[int]int{}
	opsSeen := map[string]int{}
	var infra atomic.Value
	c.ParMap(len(hs), func(i int) {
		if infra.Load() != nil {
			return
		}
		h := hs[i]
		u := us[h.Unit]
		w := wp.get()
		defer wp.put(w)
		var st replayStats
		seed := c.Seed*1000003 + int64(i)
		ms, log, err := replayHistory(w, u, h, seed, &st)
		if err != nil {
			w.stop()
			infra.Store(fmt.Errorf("replay of %s in unit %s: %v", h.key, u.Name, err))
			return
		}
		reportHistory(c, u, h, ms, log, seed)
		c.Distinct("h|" + h.key)
		mu.Lock()
		total.evals += st.evals
		total.loads += st.loads
		total.stores += st.stores
		total.crashes += st.crashes
		total.damages += st.damages
		lens[len(h.Steps)]++
		for _, s := range h.Steps {
			opsSeen[s.Op.Kind+":"+s.Op.Arg]++
		}
		mu.Unlock()
		if i < 3 {
			c.Sample(map[string]any{"unit": u.Name, "history": strings.TrimPrefix(h.key, fmt.Sprint(h.Unit)+"|"), "predicted_last_loads": h.Steps[len(h.Steps)-1].Probes})
		}
	})
	if e := infra.Load(); e != nil {
		c.Infra(e.(error))
		return false
	}
	c.Add("evaluations", total.evals)
	c.Set("histories_replayed", len(hs))
	c.Set("history_lengths", lens)
	c.Set("history_ops", opsSeen)
	c.Set("loads_compared", total.loads)
	c.Set("stores_run", total.stores)
	c.Set("stores_killed", total.crashes)
	c.Set("files_damaged", total.damages)
	c.Set("spec_guard_discards", 0)
	return true
}

// replayDir re-decides a recorded scenario.
func replayDir(c *core.Ctx, dir string) {
	b, err := os.ReadFile(filepath.Join(dir, "scenario.json"))
	if err != nil {
		c.Infra(err)
		return
	}
	var head struct {
		Kind string `json:"kind"`
	}
	if err := json.Unmarshal(b, &head); err != nil {
		c.Infra(err)
		return
	}
	wp, err := newWorkerPool(c.Scratch, 1)
	if err != nil {
		c.Infra(err)
		return
	}
	defer wp.close()
	switch head.Kind {
	case "history":
		var sc struct {
			Unit    unitT   `json:"unit"`
			Slots   [4]int  `json:"slots"`
			History []stepT `json:"history"`
			Seed    int64   `json:"seed"`
		}
		if err := json.Unmarshal(b, &sc); err != nil {
			c.Infra(err)
			return
		}
		h := &historyT{Slots: sc.Slots, Steps: sc.History, key: "0"}
		for _, s := range h.Steps {
			h.key += "|" + s.Op.String()
		}
		var st replayStats
		w := wp.get()
		ms, log, err := replayHistory(w, &sc.Unit, h, sc.Seed, &st)
		wp.put(w)
		if err != nil {
			c.Infra(err)
			return
		}
		reportHistory(c, &sc.Unit, h, ms, log, sc.Seed)
		c.Add("evaluations", st.evals)
	case "sweep":
		replaySweep(c, wp, b)
	case "roundtrip":
		replayRoundTrip(c, wp, b)
	default:
		c.Infra(fmt.Errorf("unknown scenario kind %q", head.Kind))
	}
}
