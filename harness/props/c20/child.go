package c20

import (
	"bufio"
	"encoding/json"
	"errors"
	"fmt"
	"go/ast"
	"go/parser"
	"go/token"
	"io"
	"os"
	"path/filepath"
	"strings"
	"time"

	gbuild "github.com/gopherjs/gopherjs/build"
	"github.com/gopherjs/gopherjs/build/cache"
	"github.com/gopherjs/gopherjs/compiler"
	"github.com/gopherjs/gopherjs/compiler/sources"
	log "github.com/sirupsen/logrus"

	"verif/gjs"
)

// The cache root of build/cache is fixed when the package is initialised (from
// XDG_CACHE_HOME / HOME), and a crash must be a real process death.  Every call
// into the cache therefore runs in a child process: the harness binary
// re-executed as `vcheck __c20child` with XDG_CACHE_HOME and HOME pointing into
// the scratch directory.  The child serves requests (one JSON line each) until
// its stdin closes - or until a scheduled fail point kills it with os.Exit, in
// which case no deferred function of Store runs.

const childArg = "__c20child"
const crashExit = 77

func init() {
	if len(os.Args) >= 2 && os.Args[1] == childArg {
		childMain()
		os.Exit(0)
	}
}

// cfgT is a concrete cache configuration.
type cfgT struct {
	GOOS    string   `json:"goos"`
	GOARCH  string   `json:"goarch"`
	GOROOT  string   `json:"goroot"`
	GOPATH  string   `json:"gopath"`
	Tags    []string `json:"tags"`
	Version string   `json:"version"`
	Tested  string   `json:"tested"`
}

// sharedCache is a long-lived BuildCache value of the child process whose exported
// configuration fields are rewritten in place before every other operation: a
// caller may configure one value step by step or reuse it for another
// configuration, so nothing the cache derives from its configuration may outlive
// a change of the fields (seeded change C20-a: a memoised key).
var (
	sharedCache cache.BuildCache
	cacheUses   int
)

func (c cfgT) cache() *cache.BuildCache {
	cacheUses++
	if cacheUses%2 == 0 {
		return &cache.BuildCache{GOOS: c.GOOS, GOARCH: c.GOARCH, GOROOT: c.GOROOT, GOPATH: c.GOPATH,
			BuildTags: append([]string{}, c.Tags...), Version: c.Version, TestedPackage: c.Tested}
	}
	sharedCache.GOOS, sharedCache.GOARCH, sharedCache.GOROOT, sharedCache.GOPATH = c.GOOS, c.GOARCH, c.GOROOT, c.GOPATH
	sharedCache.BuildTags, sharedCache.Version, sharedCache.TestedPackage = append([]string{}, c.Tags...), c.Version, c.Tested
	return &sharedCache
}

// pkgT describes sources to parse into a sources.Sources.
type pkgT struct {
	ImportPath string      `json:"importpath"`
	Dir        string      `json:"dir"`
	Files      [][2]string `json:"files"` // name, content
	AllowBad   bool        `json:"allowbad,omitempty"`
}

func (p *pkgT) parse() (*sources.Sources, error) {
	fset := token.NewFileSet()
	s := &sources.Sources{ImportPath: p.ImportPath, Dir: p.Dir, FileSet: fset}
	for _, f := range p.Files {
		af, err := parser.ParseFile(fset, filepath.Join(p.Dir, f[0]), f[1], parser.ParseComments|parser.AllErrors)
		if err != nil && !(p.AllowBad && af != nil) {
			return nil, fmt.Errorf("%s: %v", f[0], err)
		}
		s.Files = append(s.Files, af)
	}
	return s, nil
}

type req struct {
	Op   string `json:"op"` // store | load | build
	Cfg  cfgT   `json:"cfg"`
	Path string `json:"path"`
	Time int64  `json:"time"` // build time resp. source modification time, ns after epoch0
	Pkg  *pkgT  `json:"pkg,omitempty"`
	Mode string `json:"mode,omitempty"` // ok | werr | created | writing | written | closed | renamed
	// load: write the dump of a restored package here
	DumpTo string `json:"dumpto,omitempty"`
	// build
	Dir      string   `json:"dir,omitempty"`
	Out      string   `json:"out,omitempty"`
	UseCache bool     `json:"usecache,omitempty"`
	Tags     []string `json:"tags,omitempty"`
	DumpDir  string   `json:"dumpdir,omitempty"`
}

type event struct {
	Kind string `json:"kind"` // store | load
	Path string `json:"path"`
	Ret  bool   `json:"ret"`
	Hash string `json:"hash,omitempty"`
}

type res struct {
	Ret    bool           `json:"ret"`
	Panic  string         `json:"panic,omitempty"`
	Err    string         `json:"err,omitempty"`
	Hash   string         `json:"hash,omitempty"`
	Marker string         `json:"marker,omitempty"`
	IPath  string         `json:"ipath,omitempty"`
	Kinds  map[string]int `json:"kinds,omitempty"`
	Events []event        `json:"events,omitempty"`
}

const epoch0 = 1_700_000_000

func modelTime(ns int64) time.Time { return time.Unix(epoch0, ns) }

// faulty makes the serialiser die or fail in the middle of Write.
type faulty struct {
	*sources.Sources
	mode string
}

func (f faulty) Write(encode func(any) error) error {
	n := 0
	return f.Sources.Write(func(v any) error {
		if n == 3 { // import path, directory and files are out (in the compressor at least)
			if f.mode == "writing" {
				os.Exit(crashExit)
			}
			return errors.New("injected serialiser error")
		}
		n++
		return encode(v)
	})
}

func markerOf(s *sources.Sources) string {
	for _, f := range s.Files {
		for _, d := range f.Decls {
			gd, ok := d.(*ast.GenDecl)
			if !ok {
				continue
			}
			for _, sp := range gd.Specs {
				vs, ok := sp.(*ast.ValueSpec)
				if !ok || len(vs.Names) != 1 || vs.Names[0] == nil || vs.Names[0].Name != "Marker" || len(vs.Values) != 1 {
					continue
				}
				if bl, ok := vs.Values[0].(*ast.BasicLit); ok && bl != nil {
					return strings.Trim(bl.Value, `"`)
				}
			}
		}
	}
	return ""
}

func childStore(r req) (out res) {
	s, err := r.Pkg.parse()
	if err != nil {
		return res{Err: "parse: " + err.Error()}
	}
	d := dumpSources(s)
	out.Hash = d.hash()
	out.Kinds = map[string]int{}
	nodeKinds(s, out.Kinds)
	if r.DumpTo != "" {
		os.WriteFile(r.DumpTo, []byte(d.text()), 0o644)
	}
	var c cache.Cacheable = s
	cache.VerifFailpoint = nil
	switch r.Mode {
	case "", "ok":
	case "werr", "writing":
		c = faulty{s, r.Mode}
	default:
		step := "store:" + r.Mode
		cache.VerifFailpoint = func(at string) {
			if at == step {
				os.Exit(crashExit)
			}
		}
	}
	defer func() {
		cache.VerifFailpoint = nil
		if p := recover(); p != nil {
			out.Panic = fmt.Sprint(p)
		}
	}()
	out.Ret = r.Cfg.cache().Store(c, r.Path, modelTime(r.Time))
	return out
}

func childLoad(r req) (out res) {
	defer func() {
		if p := recover(); p != nil {
			out.Panic = fmt.Sprint(p)
			out.Ret = false
		}
	}()
	s := &sources.Sources{}
	out.Ret = r.Cfg.cache().Load(s, r.Path, modelTime(r.Time))
	if out.Ret {
		func() {
			defer func() {
				if p := recover(); p != nil {
					out.Hash = "undumpable: " + fmt.Sprint(p)
				}
			}()
			d := dumpSources(s)
			out.Hash = d.hash()
			out.Marker = markerOf(s)
			out.IPath = s.ImportPath
			if r.DumpTo != "" {
				os.WriteFile(r.DumpTo, []byte(d.text()), 0o644)
			}
		}()
	}
	return out
}

// spyCache records what the build session stores and loads.
type spyCache struct {
	inner   cache.Cache
	events  []event
	kinds   map[string]int
	dumpDir string
}

func dumpName(p string) string { return strings.NewReplacer("/", "__", ".", "_").Replace(p) + ".txt" }

func (s *spyCache) note(kind string, c cache.Cacheable, importPath string, ret bool) {
	ev := event{Kind: kind, Path: importPath, Ret: ret}
	if srcs, ok := c.(*sources.Sources); ok && (ret || kind == "store") {
		d := dumpSources(srcs)
		ev.Hash = d.hash()
		if kind == "store" {
			nodeKinds(srcs, s.kinds)
		}
		if s.dumpDir != "" {
			dir := filepath.Join(s.dumpDir, kind)
			os.MkdirAll(dir, 0o755)
			os.WriteFile(filepath.Join(dir, dumpName(importPath)), []byte(d.text()), 0o644)
		}
	}
	s.events = append(s.events, ev)
}

func (s *spyCache) Store(c cache.Cacheable, importPath string, buildTime time.Time) bool {
	// dumped right after Store: the session goes on to type-check and rewrite these files
	ret := s.inner.Store(c, importPath, buildTime)
	s.note("store", c, importPath, ret)
	return ret
}

func (s *spyCache) Load(c cache.Cacheable, importPath string, srcModTime time.Time) bool {
	ret := s.inner.Load(c, importPath, srcModTime)
	s.note("load", c, importPath, ret)
	return ret
}

// childBuild compiles the main package in r.Dir through a build session whose
// source cache is the real BuildCache (configured exactly as NewSession would
// configure it if the cache were not disabled by a constant there).
func childBuild(r req) (out res) {
	defer func() {
		if p := recover(); p != nil {
			out.Panic = fmt.Sprint(p)
		}
	}()
	if err := os.Chdir(r.Dir); err != nil {
		return res{Err: err.Error()}
	}
	s, err := gbuild.NewSession(&gbuild.Options{NoCache: true, BuildTags: r.Tags, Quiet: true})
	if err != nil {
		return res{Err: err.Error()}
	}
	var spy *spyCache
	if r.UseCache {
		env := s.XContext().Env()
		spy = &spyCache{kinds: map[string]int{}, dumpDir: r.DumpDir, inner: &cache.BuildCache{
			GOOS: env.GOOS, GOARCH: env.GOARCH, GOROOT: env.GOROOT, GOPATH: env.GOPATH,
			BuildTags: append([]string{}, env.BuildTags...), Version: compiler.Version}}
		s.VerifSetBuildCache(spy)
	}
	fin := func(e error) res {
		o := res{Err: e.Error()}
		if spy != nil {
			o.Events, o.Kinds = spy.events, spy.kinds
		}
		return o
	}
	pkg, err := s.XContext().Import(".", r.Dir, 0)
	if err != nil {
		return fin(err)
	}
	archive, err := s.BuildProject(pkg)
	if err != nil {
		return fin(err)
	}
	if err := s.WriteCommandPackage(archive, r.Out); err != nil {
		return fin(err)
	}
	out.Ret = true
	if spy != nil {
		out.Events, out.Kinds = spy.events, spy.kinds
	}
	return out
}

func childMain() {
	log.SetOutput(io.Discard)
	log.SetLevel(log.PanicLevel)
	gjs.Init()
	in := bufio.NewReaderSize(os.Stdin, 1<<20)
	w := bufio.NewWriter(os.Stdout)
	enc := json.NewEncoder(w)
	for {
		line, err := in.ReadBytes('\n')
		if len(line) > 1 {
			var r req
			var o res
			if e := json.Unmarshal(line, &r); e != nil {
				o = res{Err: "bad request: " + e.Error()}
			} else {
				switch r.Op {
				case "store":
					o = childStore(r)
				case "load":
					o = childLoad(r)
				case "build":
					o = childBuild(r)
				default:
					o = res{Err: "unknown op " + r.Op}
				}
			}
			enc.Encode(o)
			w.Flush()
		}
		if err != nil {
			return
		}
	}
}
