package c20

import (
	"fmt"
	"math/rand"
	"strings"

	"verif/props/minigo"
)

// Packages written for the round trip: together they contain every node kind
// of go/ast (the Bad* kinds through a file with syntax errors that is stored
// and restored but not compiled).

const kindsA = `// Package kinds exercises the node kinds of go/ast.
package kinds

import (
	"math"
	mb "math/bits"
	_ "unsafe"
)

// Number is a constraint.
type Number interface {
	~int | ~int32 | ~float64
}

// Pair is generic in two parameters.
type Pair[K comparable, V any] struct {
	Key K
	Val V ` + "`json:\"val\"`" + ` // a tag and a line comment
}

type (
	// Vec is an array type.
	Vec  [3]float64
	Grid [2][2]int
	Fn   func(x int, ys ...string) (n int, err error)
	// Shape has two methods.
	Shape interface {
		Area() float64
		Perimeter() float64
	}
	M     map[string][]*Pair[string, int]
	C     chan<- int
	R     <-chan int
	embed struct {
		Vec
		*Pair[int, int]
		_ int
	}
)

const (
	A = iota
	B
	Cc = 1 << iota
)

var (
	x, y            = 1, 2.5
	z    complex128 = complex(1, -2)
	s               = "str" + ` + "`raw`" + `
	r               = 'r'
	arr             = [...]int{1, 2, 5: 4}
	mm              = map[string]int{"a": 1, "b": 2}
	pp              = &Pair[string, int]{Key: "k", Val: 1}
	fn              = func(a, b int) int { return a + b }
	grid            = Grid{{1, 2}, {3, 4}}
)

// Sum adds numbers.
func Sum[T Number](xs ...T) (t T) {
	for _, v := range xs {
		t += v
	}
	return
}

// Map2 builds a pair.
func Map2[K comparable, V any](k K, v V) Pair[K, V] { return Pair[K, V]{k, v} }

func useAll() float64 {
	_ = embed{}
	var f Fn
	_ = f
	var m M
	_ = m
	return math.Sqrt(float64(x)) + y + real(z) + float64(len(s)) + float64(r) + float64(arr[5]+mm["a"]+pp.Val+fn(1, 2)+grid[1][0]+mb.Len(7)+A+B+Cc)
}
`

const kindsB = `package kinds

import "math"

// Area is a value method.
func (v Vec) Area() float64 { return v[0] * v[1] }

// Perimeter is a value method.
func (v Vec) Perimeter() float64 { return 2 * (v[0] + v[1]) }

// Scale is a pointer method.
func (v *Vec) Scale(f float64) { (*v)[0] *= f }

/* Stmts runs through the statement kinds. */
func Stmts(n int, sh Shape, ch chan int, in R) (out int, err error) {
	defer func() {
		if e := recover(); e != nil {
			out = -1
		}
	}()
	go func(c chan<- int) { c <- n }(ch)
	var local [4]int
	sl := local[1:3:4]
	sl2 := sl[:]
	_ = sl2
	type inner struct{ a int }
	const k = 3
	p := &out
	f := Sum[int]
	;
outer:
	for i := 0; i < n; i++ {
		switch {
		case i == 1:
			continue outer
		case i > k:
			break outer
		default:
			out++
			fallthrough
		case i == 2:
			out--
		}
	}
	for range local {
		out++
	}
	for i := range sl {
		sl[i]++
	}
	for k, v := range mm {
		out += len(k) + v
	}
	for out < 100 {
		out = out*2 + 1
	}
	for {
		break
	}
	switch v := sh.(type) {
	case Vec:
		out += int(v.Area())
	case *Vec, nil:
		out += 1
	default:
		_ = v
	}
	switch t := n % 3; t {
	case 0, 1:
	default:
	}
	select {
	case v, ok := <-in:
		if !ok {
			goto done
		}
		out += v
	case ch <- 1:
	default:
	}
	if a, ok := sh.(Vec); ok && a[0] > 0 || !ok {
		out ^= 1
	} else if n < 0 {
		out = -out
	} else {
		out &^= 2
	}
	*p += int(math.Floor(y)) + f(1, 2) + int(Sum(1.5, 2.5)) + Map2("a", inner{1}).Val.a
	{
		var q interface{} = (*Vec)(nil)
		_, _ = q.(Shape)
	}
done:
	return out + int(useAll()), nil
}
`

// files with syntax errors: the parser yields BadDecl and BadExpr nodes for
// the first and BadStmt and BadExpr nodes for the second
const badFile1 = `package broken

foo bar

func f() {
	x := [)
	else
	_ = x
}

type T struct {
	a int
}

func g() {
	var y = 1 +
}
`

const badFile2 = `package broken

func h() {
	x := 1
	else
	_ = x
	y := [)
}

type U struct {
	a int
}
`

// free-floating comments (not attached to any node) and a //go:linkname
// directive separated from its declaration by a blank line
const floatingMain = `package main

import (
	_ "unsafe"

	_ "vp/impl"
)

// a free-floating comment

//go:linkname secret vp/impl.secret

func secret() int

func main() {
	// a comment inside a body
	println(secret())
}
`

const floatingImpl = `package impl

func secret() int { return 42 }

var _ = secret
`

func kindsPkg(importPath string) *pkgT {
	return &pkgT{ImportPath: importPath, Dir: "/src/" + importPath, Files: [][2]string{{"a.go", kindsA}, {"b.go", kindsB}}}
}

// program 1: a main package over the written packages and the standard
// packages that compile here
const prog1Main = `package main

import (
	"math"
	"math/bits"
	"runtime"
	"sync/atomic"
	"unicode"
	"unicode/utf8"

	"github.com/gopherjs/gopherjs/js"

	"vp/kinds"
	"vp/sub"
)

var counter int32

func main() {
	atomic.AddInt32(&counter, 2)
	ch := make(chan int, 1)
	v := kinds.Vec{1, 2, 3}
	n, _ := kinds.Stmts(5, v, ch, nil)
	println(n, sub.Version, sub.Twice(int(counter)), bits.Len(uint(n)), utf8.RuneLen('x'), unicode.IsUpper('A'), math.Floor(2.5) == 2, runtime.NumGoroutine() > 0, js.Global != nil)
	println(kinds.Sum(1, 2, 3), kinds.Map2("a", 1).Val)
}
`

func subSrc(version int) string {
	return fmt.Sprintf(`// Package sub is modified between builds.
package sub

// Version changes when the sources are touched.
const Version = %d

// Twice doubles.
func Twice(x int) int { return 2*x + Version }
`, version)
}

const subTagged = `//go:build vtag

package sub

func init() { println("built with vtag") }
`

func prog1(version int) map[string]string {
	return map[string]string{
		"main.go":         prog1Main,
		"kinds/a.go":      kindsA,
		"kinds/b.go":      kindsB,
		"sub/sub.go":      subSrc(version),
		"sub/sub_vtag.go": subTagged,
	}
}

const minigoHelpers = `package main

var inp []bool
var ip int

func in() bool {
	if ip < len(inp) {
		b := inp[ip]
		ip++
		return b
	}
	ip++
	return false
}

func yield(k int) {}

func tr(k, v int) int {
	println("t", k, v)
	return v
}

func trb(k int, b bool) bool {
	println("b", k, b)
	return b
}
`

// prog2: scenario programs of verif/props/minigo (families and seeded random
// ones) rendered into one main package.
func prog2(rng *rand.Rand, nrandom int) (map[string]string, int) {
	var progs []*minigo.Program
	take := func(ps []*minigo.Program, n int) {
		for i := 0; i < n && i < len(ps); i++ {
			progs = append(progs, ps[rng.Intn(len(ps))])
		}
	}
	take(minigo.SwitchFamily(), 12)
	take(minigo.LoopFamily(), 12)
	take(minigo.CondFamily(), 12)
	take(minigo.OrderFamily(), 12)
	for i := 0; i < nrandom; i++ {
		progs = append(progs, minigo.Random(rng))
	}
	var b strings.Builder
	b.WriteString("package main\n\n")
	for n, p := range progs {
		p.Normalise()
		b.WriteString(minigo.RenderFuncs(p, n))
	}
	b.WriteString("func main() {\n")
	for n := range progs {
		fmt.Fprintf(&b, "\tinp, ip = []bool{true, false, true}, 0\n\tprintln(%d, p%d_f0())\n", n, n)
	}
	b.WriteString("}\n")
	return map[string]string{"main.go": b.String(), "helpers.go": minigoHelpers}, len(progs)
}

func prog3() map[string]string {
	return map[string]string{"main.go": floatingMain, "impl/impl.go": floatingImpl}
}
