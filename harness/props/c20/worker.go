package c20

import (
	"bufio"
	"bytes"
	"compress/gzip"
	"encoding/json"
	"errors"
	"fmt"
	"io"
	"os"
	"os/exec"
	"path/filepath"
	"sort"
	"sync/atomic"
	"time"
)

// worker owns one cache root (its private XDG_CACHE_HOME) and the lineage of
// child processes that use it.  The directory gopherjs/build_cache below the
// XDG directory is a symbolic link that the parent re-points to a fresh
// directory for every scenario, so a long-lived child (whose cache root path is
// fixed) sees an empty cache at the start of each scenario.
type worker struct {
	root   string
	xdg    string
	link   string
	cur    string
	seq    int
	cmd    *exec.Cmd
	in     io.WriteCloser
	out    *bufio.Reader
	stderr *bytes.Buffer
}

var spawns, crashes int64

func newWorker(scratch string, id int) (*worker, error) {
	w := &worker{root: filepath.Join(scratch, fmt.Sprintf("w%02d", id))}
	w.xdg = filepath.Join(w.root, "xdg")
	w.link = filepath.Join(w.xdg, "gopherjs", "build_cache")
	if err := os.MkdirAll(filepath.Dir(w.link), 0o755); err != nil {
		return nil, err
	}
	if err := os.MkdirAll(filepath.Join(w.root, "home"), 0o755); err != nil {
		return nil, err
	}
	return w, w.freshDir()
}

// freshDir gives the worker an empty cache directory.
func (w *worker) freshDir() error {
	if w.cur != "" {
		os.RemoveAll(w.cur)
	}
	w.seq++
	w.cur = filepath.Join(w.root, fmt.Sprintf("cache%06d", w.seq))
	if err := os.MkdirAll(w.cur, 0o755); err != nil {
		return err
	}
	os.Remove(w.link)
	return os.Symlink(w.cur, w.link)
}

func (w *worker) spawn() error {
	exe, err := os.Executable()
	if err != nil {
		return err
	}
	cmd := exec.Command(exe, childArg)
	env := []string{}
	for _, e := range os.Environ() {
		if len(e) >= 5 && e[:5] == "HOME=" || len(e) >= 15 && e[:15] == "XDG_CACHE_HOME=" {
			continue
		}
		env = append(env, e)
	}
	cmd.Env = append(env, "XDG_CACHE_HOME="+w.xdg, "HOME="+filepath.Join(w.root, "home"))
	cmd.Dir = w.root
	w.stderr = &bytes.Buffer{}
	cmd.Stderr = w.stderr
	in, err := cmd.StdinPipe()
	if err != nil {
		return err
	}
	out, err := cmd.StdoutPipe()
	if err != nil {
		return err
	}
	if err := cmd.Start(); err != nil {
		return err
	}
	atomic.AddInt64(&spawns, 1)
	w.cmd, w.in, w.out = cmd, in, bufio.NewReaderSize(out, 1<<20)
	return nil
}

func (w *worker) stop() {
	if w.cmd != nil {
		w.in.Close()
		done := make(chan struct{})
		go func() { w.cmd.Wait(); close(done) }()
		select {
		case <-done:
		case <-time.After(10 * time.Second):
			w.cmd.Process.Kill()
			<-done
		}
		w.cmd = nil
	}
}

func (w *worker) close() {
	w.stop()
	os.RemoveAll(w.root)
}

var errChildDied = errors.New("child process died")

// call sends one request.  crashed reports that the child exited with the
// status of a scheduled crash; died (an error wrapping errChildDied) that it
// terminated in any other way.
func (w *worker) call(r req) (o res, crashed bool, err error) {
	if w.cmd == nil {
		if err := w.spawn(); err != nil {
			return o, false, err
		}
	}
	b, _ := json.Marshal(r)
	timer := time.AfterFunc(5*time.Minute, func() { w.cmd.Process.Kill() })
	defer timer.Stop()
	if _, err := w.in.Write(append(b, '\n')); err != nil {
		w.cmd.Wait()
		w.cmd = nil
		return o, false, fmt.Errorf("%w: write: %v; stderr: %s", errChildDied, err, tailBytes(w.stderr.Bytes(), 600))
	}
	line, rerr := w.out.ReadBytes('\n')
	if rerr != nil {
		werr := w.cmd.Wait()
		w.cmd = nil
		var ee *exec.ExitError
		if errors.As(werr, &ee) && ee.ExitCode() == crashExit {
			atomic.AddInt64(&crashes, 1)
			return o, true, nil
		}
		return o, false, fmt.Errorf("%w: %v; stderr: %s", errChildDied, werr, tailBytes(w.stderr.Bytes(), 600))
	}
	if err := json.Unmarshal(line, &o); err != nil {
		return o, false, fmt.Errorf("bad child answer %q: %v", tailBytes(line, 200), err)
	}
	return o, false, nil
}

func tailBytes(b []byte, n int) string {
	if len(b) > n {
		b = b[len(b)-n:]
	}
	return string(b)
}

// listing is what is in the current cache directory.
type listing struct {
	final map[string]string // name -> path
	temps []string
	other []string
}

func isHex64(s string) bool {
	if len(s) != 64 {
		return false
	}
	for _, c := range s {
		if !(c >= '0' && c <= '9' || c >= 'a' && c <= 'f') {
			return false
		}
	}
	return true
}

func (w *worker) list() listing {
	l := listing{final: map[string]string{}}
	filepath.Walk(w.cur, func(p string, info os.FileInfo, err error) error {
		if err != nil || info.IsDir() {
			return nil
		}
		name := filepath.Base(p)
		switch {
		case isHex64(name):
			l.final[name] = p
		case len(name) > 64 && isHex64(name[:64]):
			l.temps = append(l.temps, p)
		default:
			l.other = append(l.other, p)
		}
		return nil
	})
	sort.Strings(l.temps)
	return l
}

// verifyEntry is the independent integrity guard: the file is a gzip stream
// that decompresses to the end with a correct CRC-32 and size.  It returns the
// decompressed bytes.
func verifyEntry(data []byte) ([]byte, error) {
	zr, err := gzip.NewReader(bytes.NewReader(data))
	if err != nil {
		return nil, err
	}
	payload, err := io.ReadAll(zr)
	if err != nil {
		return nil, err
	}
	return payload, zr.Close()
}
