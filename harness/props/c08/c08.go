// Package c08 decides C08 (panics, deferred calls, recover, run-time errors).
//
// spec/Unwind.tla is the reference semantics of defer/panic/recover/Goexit;
// spec/UnwindScen.tla enumerates function families with the predicted outcome;
// spec/RtePanics.tla (see rte.go) enumerates the operations that must raise a
// run-time error, with their evaluation order.  Every scenario is rendered as
// Go, compiled by the compiler under test, run under Node (one execution per
// scenario) and compared with the prediction; the reference toolchain guards
// the specification.
package c08

import (
	"encoding/json"
	"fmt"
	"math/rand"
	"os"
	"path/filepath"
	"regexp"
	"sort"
	"strconv"
	"strings"
	"time"

	"verif/core"
	"verif/gjs"
	"verif/reg"
	"verif/tlcx"
)

func init() { reg.Register("C08", "model_checking", Run) }

// Op is one operation of a function body (tuple form of Unwind.tla).
type Op struct {
	Kind string
	A, B int
	D    *Op // defer
}

func (o *Op) UnmarshalJSON(b []byte) error {
	var a []json.RawMessage
	if err := json.Unmarshal(b, &a); err != nil {
		return err
	}
	if err := json.Unmarshal(a[0], &o.Kind); err != nil {
		return err
	}
	if o.Kind == "defer" {
		o.D = &Op{}
		return json.Unmarshal(a[1], o.D)
	}
	if len(a) > 1 {
		json.Unmarshal(a[1], &o.A)
	}
	if len(a) > 2 {
		json.Unmarshal(a[2], &o.B)
	}
	return nil
}

type outcome struct {
	Obs [][]json.RawMessage `json:"obs"`
	End string              `json:"end"`
	Val int                 `json:"val"`
}

type scenario struct {
	P    [][]Op  `json:"P"`
	Out  outcome `json:"out"`
	raw  string
	want []string
	// V is the rendering variant: the kind of call that reaches every function of the
	// family and the kind of deferred function that calls recover (same semantics in
	// Unwind.tla, different code paths in the compiler and the run time).
	V int
	// Y selects suspension points (C02): 0 none, 1 every deferred closure starts by
	// yielding to the scheduler (runtime.Gosched), 2 additionally every operation of
	// every function body is preceded by a yield. A yield is a stuttering step of
	// Unwind.tla: the prediction does not depend on Y.
	Y int
}

// Rendering variants.
const (
	vDirect    = iota // f(); defer func() { recover() }()
	vMethExpr         // T.F(T{}); defer R.rec(R{}, k)           value receiver, method expression
	vPtrExpr          // (*T).F(&T{}); defer (*R).prec(&R{}, k)  pointer receiver, method expression
	vMethVal          // v := T{}.F; v(); defer recMV(k)         method value
	vIface            // I(T{}).F(); defer recI.rec(k)           interface method, value receiver
	vFuncVal          // v := f; v(); defer recNamed(k)          function value / declared function
	nVariants
)

var variantNames = []string{"direct", "methodexpr", "ptrmethodexpr", "methodvalue", "interface", "funcvalue"}

// fnDecl is the declaration header of function k of scenario n, callExpr the
// expression that calls it (usable after `x :=` and after `defer`).
func fnDecl(v, n, k int) string {
	switch v {
	case vMethExpr, vMethVal, vIface:
		return fmt.Sprintf("type s%d_T%d struct{}\n\nfunc (s%d_T%d) F() (r int) {\n", n, k, n, k)
	case vPtrExpr:
		return fmt.Sprintf("type s%d_T%d struct{}\n\nfunc (*s%d_T%d) F() (r int) {\n", n, k, n, k)
	}
	return fmt.Sprintf("func s%d_F%d() (r int) {\n", n, k)
}

func fnExtra(v, n, k int) string {
	switch v {
	case vMethVal:
		return fmt.Sprintf("var s%d_V%d = s%d_T%d{}.F\n\n", n, k, n, k)
	case vIface:
		return fmt.Sprintf("var s%d_V%d interface{ F() int } = s%d_T%d{}\n\n", n, k, n, k)
	case vFuncVal:
		return fmt.Sprintf("var s%d_V%d = s%d_F%d\n\n", n, k, n, k)
	}
	return ""
}

func callExpr(v, n, k int) string {
	switch v {
	case vMethExpr:
		return fmt.Sprintf("s%d_T%d.F(s%d_T%d{})", n, k, n, k)
	case vPtrExpr:
		return fmt.Sprintf("(*s%d_T%d).F(&s%d_T%d{})", n, k, n, k)
	case vMethVal, vFuncVal:
		return fmt.Sprintf("s%d_V%d()", n, k)
	case vIface:
		return fmt.Sprintf("s%d_V%d.F()", n, k)
	}
	return fmt.Sprintf("s%d_F%d()", n, k)
}

// deferRec is the defer statement of a deferred function that recovers and prints.
func deferRec(v, k int) string {
	switch v {
	case vMethExpr:
		return fmt.Sprintf("\tdefer recT.rec(recT{}, %d)\n", k)
	case vPtrExpr:
		return fmt.Sprintf("\tdefer (*recT).prec(&recT{}, %d)\n", k)
	case vMethVal:
		return fmt.Sprintf("\tdefer recMV(%d)\n", k)
	case vIface:
		return fmt.Sprintf("\tdefer recI.rec(%d)\n", k)
	case vFuncVal:
		return fmt.Sprintf("\tdefer recNamed(%d)\n", k)
	}
	return fmt.Sprintf("\tdefer func() {\n\t\tv := recover()\n\t\tprintln(\"rec\", %d, pv(v))\n\t}()\n", k)
}

// expected is the predicted output of the scenario program: the program runs the
// family a second time when the first run returns (Unwind.tla: a returned family
// leaves no pending panic, deferred call or recovery state behind).
func (s *scenario) expected() []string {
	if s.Out.End == "exit" {
		return append(append([]string{}, s.want...), s.want...)
	}
	return s.want
}

func (s *scenario) lines() []string {
	var ls []string
	for _, t := range s.Out.Obs {
		var parts []string
		for _, x := range t {
			var str string
			if json.Unmarshal(x, &str) == nil {
				parts = append(parts, str)
			} else {
				parts = append(parts, string(x))
			}
		}
		ls = append(ls, strings.Join(parts, " "))
	}
	return ls
}

func panicExpr(v int) string {
	switch v {
	case 1:
		return "panic(1)"
	case 2:
		return "panic(\"two\")"
	default:
		return "panic(errV{3})"
	}
}

const prelude = `package main

import "runtime"

type errV struct{ n int }

func (e errV) Error() string { return "errV" }

var zero = 0
var one = 1
var nilmap map[int]int

func yield() { runtime.Gosched() }

type recT struct{}

func (recT) rec(k int) {
	v := recover()
	println("rec", k, pv(v))
}

func (*recT) prec(k int) {
	v := recover()
	println("rec", k, pv(v))
}

func recNamed(k int) {
	v := recover()
	println("rec", k, pv(v))
}

var recMV = recT{}.rec
var recI interface{ rec(int) } = recT{}

func has(s, sub string) bool {
	for i := 0; i+len(sub) <= len(s); i++ {
		if s[i:i+len(sub)] == sub {
			return true
		}
	}
	return false
}

// pv maps a recovered value to the value numbers of the specification.
func pv(v any) int {
	switch x := v.(type) {
	case nil:
		return 0
	case int:
		return x
	case string:
		return 2
	case errV:
		return 3
	case runtime.Error:
		m := x.Error()
		switch {
		case has(m, "divide by zero"):
			return 11
		case has(m, "nil map"):
			return 12
		}
		return 97
	case error:
		return 98
	}
	return 99
}

`

var reDeferClosure = regexp.MustCompile(`defer func\(([^)]*)\) \{\n?`)

func renderOps(b *strings.Builder, v, y, n int, ops []Op) {
	for _, op := range ops {
		if y == 2 {
			b.WriteString("\tyield()\n")
		}
		switch op.Kind {
		case "emit":
			fmt.Fprintf(b, "\tprintln(\"e\", %d)\n", op.A)
		case "set":
			fmt.Fprintf(b, "\tr = %d\n", op.A)
		case "ret":
			fmt.Fprintf(b, "\treturn %d\n", op.A)
		case "panic":
			fmt.Fprintf(b, "\t%s\n", panicExpr(op.A))
		case "rte":
			if op.A == 1 {
				b.WriteString("\tr = one / zero\n")
			} else {
				b.WriteString("\tnilmap[1] = 1\n")
			}
		case "call":
			fmt.Fprintf(b, "\t{\n\t\tx := %s\n\t\tprintln(\"c\", %d, x)\n\t}\n", callExpr(v, n, op.A), op.A)
		case "recover":
			fmt.Fprintf(b, "\t{\n\t\tv := recover()\n\t\tprintln(\"rec\", %d, pv(v))\n\t}\n", op.A)
		case "goexit":
			b.WriteString("\truntime.Goexit()\n")
		case "defer":
			d := op.D
			switch d.Kind {
			case "emit":
				fmt.Fprintf(b, "\tdefer func(x int) { println(\"d\", %d, x) }(r)\n", d.A)
			case "rec":
				b.WriteString(deferRec(v, d.A))
			case "recnest":
				fmt.Fprintf(b, "\tdefer func() {\n\t\tfunc() {\n\t\t\tv := recover()\n\t\t\tprintln(\"rec\", %d, pv(v))\n\t\t}()\n\t}()\n", d.A)
			case "recbuiltin":
				b.WriteString("\tdefer recover()\n")
			case "setres":
				fmt.Fprintf(b, "\tdefer func() { r = %d }()\n", d.A)
			case "recset":
				fmt.Fprintf(b, "\tdefer func() {\n\t\tif x := recover(); x != nil {\n\t\t\tprintln(\"rec\", %d, pv(x))\n\t\t\tr = %d\n\t\t}\n\t}()\n", d.A, d.B)
			case "repanic":
				fmt.Fprintf(b, "\tdefer func() {\n\t\tx := recover()\n\t\tprintln(\"rec\", %d, pv(x))\n\t\tif x != nil {\n\t\t\tpanic(x)\n\t\t}\n\t}()\n", d.A)
			case "panic":
				fmt.Fprintf(b, "\tdefer func() { %s }()\n", panicExpr(d.A))
			case "call":
				fmt.Fprintf(b, "\tdefer %s\n", callExpr(v, n, d.A))
			}
		}
	}
}

func render(batch []*scenario) map[string]string {
	var b strings.Builder
	b.WriteString(prelude)
	for n, s := range batch {
		for fi, ops := range s.P {
			b.WriteString(fnDecl(s.V, n, fi+1))
			var fb strings.Builder
			renderOps(&fb, s.V, s.Y, n, ops)
			body := fb.String()
			if s.Y > 0 {
				body = reDeferClosure.ReplaceAllString(body, "defer func($1) {\n\t\tyield()\n")
			}
			b.WriteString(body)
			b.WriteString("\treturn\n}\n\n")
			b.WriteString(fnExtra(s.V, n, fi+1))
		}
	}
	b.WriteString("func run(n int) int {\n\tswitch n {\n")
	for n := range batch {
		fmt.Fprintf(&b, "\tcase %d:\n\t\treturn %s\n", n, callExpr(batch[n].V, n, 1))
	}
	b.WriteString("\t}\n\treturn -1\n}\n\n")
	b.WriteString("func main() {\n\tdone := make(chan bool)\n\tgo func() {\n\t\tx := run(argN())\n\t\tprintln(\"ret\", x)\n\t\t// a family that returns leaves no trace in the run time: the second run prints the same\n\t\ty := run(argN())\n\t\tprintln(\"ret\", y)\n\t\tdone <- true\n\t}()\n\t<-done\n}\n")
	return map[string]string{"main.go": b.String(), "args_js.go": argsJS, "args_native.go": argsNative}
}

const argsJS = `//go:build js

package main

import "github.com/gopherjs/gopherjs/js"

func argN() int { return js.Global.Get("process").Get("argv").Index(2).Int() }
`

const argsNative = `//go:build !js

package main

import "os"

func argN() int {
	n := 0
	for _, c := range os.Args[1] {
		n = n*10 + int(c-'0')
	}
	return n
}
`

// panicCode maps the message of an uncaught panic to the specification's value number (-1 unknown).
func panicCode(msg string) int {
	msg = strings.TrimSpace(msg)
	switch {
	case strings.Contains(msg, "divide by zero"):
		return 11
	case strings.Contains(msg, "nil map"):
		return 12
	case msg == "1" || strings.HasPrefix(msg, "1 ") || msg == "main.int(1)":
		return 1
	case msg == "two" || msg == `"two"` || strings.HasPrefix(msg, "two ") || strings.HasPrefix(msg, `"two" `):
		return 2
	case strings.HasPrefix(msg, "errV") || strings.Contains(msg, "main.errV"):
		return 3
	}
	return -1
}

func (s *scenario) hasOp(pred func(Op) bool) bool {
	for _, f := range s.P {
		for _, op := range f {
			if pred(op) {
				return true
			}
		}
	}
	return false
}

// classify returns the known-finding keys a failing scenario satisfies.
func classify(s *scenario) []string {
	var keys []string
	deferKind := func(k string) func(Op) bool {
		return func(o Op) bool { return o.Kind == "defer" && o.D.Kind == k }
	}
	anyDefer := func(o Op) bool { return o.Kind == "defer" }
	raises := func(o Op) bool {
		return o.Kind == "panic" || o.Kind == "rte" || (o.Kind == "defer" && o.D.Kind == "panic")
	}
	if s.hasOp(deferKind("recbuiltin")) && s.hasOp(raises) {
		keys = append(keys, "defer_recover_builtin_recovers")
	}
	if s.hasOp(func(o Op) bool { return o.Kind == "goexit" }) && s.hasOp(anyDefer) {
		keys = append(keys, "goexit_in_frame_with_defer")
	}
	return keys
}

type fail struct {
	s   *scenario
	got gjs.Obs
	why string
}

// wrapperShape: a deferred function that calls recover directly is a value-receiver
// method reached through a method expression or an interface (the run time reaches
// such a method through a forwarding wrapper, one JavaScript frame more).
func wrapperShape(s *scenario) bool {
	if s.V != vMethExpr && s.V != vIface {
		return false
	}
	if s.hasOp(func(o Op) bool { return o.Kind == "defer" && o.D.Kind == "rec" }) {
		return true
	}
	return s.hasOp(func(o Op) bool { return o.Kind == "defer" && o.D.Kind == "call" }) &&
		s.hasOp(func(o Op) bool { return o.Kind == "recover" })
}

func runScenarios(c *core.Ctx, pool *gjs.Pool, scens []*scenario) {
	fails, nd := evalScenarios(c, pool, scens)
	c.Add("spec_guard_discards", nd)
	c.Add("traces_validated_against_impl", len(scens)-nd)
	// A failing family of the wrapper shape is re-evaluated in the direct variant: only
	// if the same family is right there is the failure attributed to the known finding.
	var again []*scenario
	for _, f := range fails {
		if wrapperShape(f.s) {
			d := *f.s
			d.V = vDirect
			again = append(again, &d)
		}
	}
	directOK := map[string]bool{}
	if len(again) > 0 {
		fails2, _ := evalScenarios(c, pool, again)
		bad := map[string]bool{}
		for _, f := range fails2 {
			bad[f.s.raw] = true
		}
		for _, s := range again {
			directOK[s.raw] = !bad[s.raw]
		}
	}
	for _, f := range fails {
		files := map[string]string{"scenario.json": f.s.raw + "\n", "variant.txt": variantNames[f.s.V] + "\n", "predicted.txt": strings.Join(f.s.expected(), "\n") + "\nend=" + f.s.Out.End + "\n", "observed.txt": f.got.Raw + "\nend=" + f.got.End + " " + f.got.Msg + "\n"}
		for n, content := range render([]*scenario{f.s}) {
			files["prog/"+n] = content
		}
		pj, _ := json.Marshal(f.s.P)
		keys := classify(f.s)
		if wrapperShape(f.s) && directOK[f.s.raw] {
			keys = append(keys, "recover_in_deferred_value_receiver_method:"+variantNames[f.s.V])
		}
		c.Report(core.Case{Keys: keys, Summary: fmt.Sprintf("defer/panic/recover scenario %s (calls rendered as %s): compiled program %s (native Go agrees with the specification)", pj, variantNames[f.s.V], f.why), Files: files})
	}
}

func evalScenarios(c *core.Ctx, pool *gjs.Pool, scens []*scenario) ([]fail, int) {
	const per = 200
	nb := (len(scens) + per - 1) / per
	fails := make([][]fail, nb)
	discards := make([]int, nb)
	c.ParMap(nb, func(bi int) {
		lo, hi := bi*per, (bi+1)*per
		if hi > len(scens) {
			hi = len(scens)
		}
		batch := scens[lo:hi]
		prog := gjs.Prog{Files: render(batch)}
		dir, err := prog.Materialise(c.Scratch)
		if err != nil {
			c.Infra(err)
			return
		}
		out := filepath.Join(dir, "out.js")
		if err := pool.Build(dir, out, gjs.Opts{}); err != nil {
			if be, ok := err.(*gjs.BuildError); ok && be.Panic {
				c.Report(core.Case{Keys: []string{"compiler_panic"}, Summary: "compiler internal error: " + be.Error(), Files: prog.ReplayFiles("prog")})
			} else {
				c.Infra(fmt.Errorf("gopherjs build: %v", err))
			}
			return
		}
		bin := filepath.Join(dir, "native.bin")
		if r := gjs.NativeBuild(dir, bin); r.ExitCode != 0 || r.Err != nil {
			c.Infra(fmt.Errorf("reference toolchain rejected a generated program: %s", r.Out))
			return
		}
		jobs := make([]gjs.Job, len(batch))
		for n := range batch {
			jobs[n] = gjs.Job{Args: []string{strconv.Itoa(n)}, MaxSteps: 2000}
		}
		obs, err := gjs.NodeMulti(out, jobs, 5*time.Minute)
		if err != nil {
			c.Infra(err)
			return
		}
		for n, s := range batch {
			nat := gjs.ClassifyNative(gjs.NativeRun(bin, 20*time.Second, nil, strconv.Itoa(n)))
			agree := func(o gjs.Obs) (bool, string) {
				if o.End != s.Out.End {
					return false, fmt.Sprintf("ends with %s (%s), predicted %s", o.End, o.Msg, s.Out.End)
				}
				want := s.expected()
				if len(o.Lines) != len(want) {
					return false, fmt.Sprintf("printed %d lines, predicted %d", len(o.Lines), len(want))
				}
				for i := range o.Lines {
					if o.Lines[i] != want[i] {
						return false, fmt.Sprintf("line %d is %q, predicted %q", i+1, o.Lines[i], want[i])
					}
				}
				if o.End == "panic" {
					if pc := panicCode(o.Msg); pc >= 0 && pc != s.Out.Val {
						return false, fmt.Sprintf("dies with panic value %q, predicted value number %d", o.Msg, s.Out.Val)
					}
				}
				return true, ""
			}
			if ok, _ := agree(nat); !ok {
				discards[bi]++
				continue
			}
			if ok, why := agree(obs[n]); !ok {
				fails[bi] = append(fails[bi], fail{s, obs[n], why})
			}
		}
	})
	nd := 0
	for _, d := range discards {
		nd += d
	}
	var all []fail
	for _, fl := range fails {
		all = append(all, fl...)
	}
	return all, nd
}

var allOps = []string{"emit", "set", "ret", "panic", "rte", "call", "recover", "goexit", "d.emit", "d.rec", "d.recnest", "d.recbuiltin", "d.setres", "d.recset", "d.repanic", "d.panic", "d.call"}

type scenCfg struct {
	name  string
	n     int
	l     []int
	ops   []string
	sim   int
	depth int
}

func enumerate(c *core.Ctx, sc scenCfg, into map[string]*scenario) bool {
	pj, _ := json.Marshal(map[string]any{"N": sc.n, "L": sc.l, "ops": sc.ops, "out": "scen.ndjson"})
	o := tlcx.Opts{Module: "UnwindScen", Cfg: "SPECIFICATION Spec\nINVARIANT SemOK Emit\nCHECK_DEADLOCK FALSE\n", Workers: 8, Timeout: 20 * time.Minute,
		Files: map[string]string{"c08_params.json": string(pj)}}
	if sc.sim > 0 {
		o.SimNum = sc.sim / 8
		o.Depth = sc.depth
		o.Seed = c.Seed
	}
	r, err := tlcx.Run(c, o)
	if !tlcx.MustComplete(c, r, err, "UnwindScen "+sc.name) {
		return false
	}
	err = tlcx.ReadNDJSON(filepath.Join(r.Dir, "scen.ndjson"), func(raw json.RawMessage) error {
		var inner string
		if err := json.Unmarshal(raw, &inner); err != nil {
			return nil // torn line
		}
		s := &scenario{raw: inner}
		if err := json.Unmarshal([]byte(inner), s); err != nil {
			return nil
		}
		pk, _ := json.Marshal(s.P)
		s.want = s.lines()
		into[string(pk)] = s
		return nil
	})
	if err != nil {
		c.Infra(err)
		return false
	}
	if sc.sim == 0 {
		c.Set("exhaustive_config_"+sc.name, fmt.Sprintf("N=%d L=%v ops=%d kinds: %d states", sc.n, sc.l, len(sc.ops), r.Distinct))
	}
	return true
}

// Run is the C08 check.
func Run(c *core.Ctx, pool *gjs.Pool) {
	if os.Getenv("VERIF_C08_YIELD") != "" { // development aid: the C02 part alone
		RunYield(c, pool)
		return
	}
	rng := rand.New(rand.NewSource(c.Seed))
	c.Assumef("panic values are observed as (class, value number); the wording of run-time error messages beyond the identifying clause is not compared")
	c.Assumef("panic(nil) is excluded (its meaning depends on the language version)")
	scens := map[string]*scenario{}
	var cfgs []scenCfg
	if c.Thorough() {
		cfgs = []scenCfg{
			{name: "one-function", n: 1, l: []int{4}, ops: allOps},
			{name: "two-functions", n: 2, l: []int{2, 3}, ops: allOps},
			{name: "sim-3", n: 3, l: []int{4, 4, 3}, ops: allOps, sim: 60000, depth: 40},
		}
	} else {
		cfgs = []scenCfg{
			{name: "one-function", n: 1, l: []int{3}, ops: allOps},
			{name: "sim-3", n: 3, l: []int{3, 3, 3}, ops: allOps, sim: 6000, depth: 40},
		}
	}
	for _, sc := range cfgs {
		if !enumerate(c, sc, scens) {
			return
		}
	}
	c.Phase("enumerate")
	keys := make([]string, 0, len(scens))
	for k := range scens {
		keys = append(keys, k)
	}
	sort.Strings(keys)
	rng.Shuffle(len(keys), func(i, j int) { keys[i], keys[j] = keys[j], keys[i] })
	max := c.Pick(3000, 400000)
	if len(keys) > max {
		keys = keys[:max]
	}
	list := make([]*scenario, len(keys))
	perVariant := make([]int, nVariants)
	for i, k := range keys {
		list[i] = scens[k]
		// half of the families are rendered with direct calls and closures, the others
		// with one of the other call / deferred-function kinds (by seed)
		if h := rng.Intn(2 * (nVariants - 1)); h < nVariants-1 {
			list[i].V = 1 + h
		}
		perVariant[list[i].V]++
		if list[i].hasOp(func(o Op) bool {
			return o.Kind == "defer" || o.Kind == "panic" || o.Kind == "rte" || o.Kind == "goexit"
		}) {
			c.Distinct(k)
		}
	}
	pv := map[string]int{}
	for v, n := range perVariant {
		pv[variantNames[v]] = n
	}
	c.Set("families_per_rendering_variant", pv)
	c.Set("evaluations", len(list))
	c.Set("rule", "function families enumerated by TLC from UnwindScen.tla (exhaustive small bound + -simulate for three functions); one evaluation = one family executed once; distinct_nontrivial = distinct families containing a defer, panic, run-time error or Goexit")
	c.Set("checker_cmd", "tlc UnwindScen (INVARIANT SemOK Emit); tlc RtePanics (INVARIANT Emit)")
	runScenarios(c, pool, list)
	c.Phase("unwind_scenarios")
	runRte(c, pool)
	c.Phase("rte_scenarios")
	implModel(c, pool, scens)
	for i, s := range list {
		if i%(len(list)/3+1) == 0 {
			c.Sample(map[string]any{"family": json.RawMessage(s.raw)})
		}
	}
}

// RunYield is the part of C02 that concerns deferred calls, panics and recover
// ("... pending deferred call ... including suspensions inside deferred functions
// during a return or a panic"): families of UnwindScen.tla are rendered with
// suspension points (scenario.Y) and must print what Unwind.tla predicts, in which
// a suspension does not occur at all. Violations are reported for the property of
// the calling check (C02).
func RunYield(c *core.Ctx, pool *gjs.Pool) {
	rng := rand.New(rand.NewSource(c.Seed + 77))
	scens := map[string]*scenario{}
	cfgs := []scenCfg{
		{name: "yield-one-function", n: 1, l: []int{3}, ops: allOps},
		{name: "yield-sim-3", n: 3, l: []int{3, 3, 3}, ops: allOps, sim: c.Pick(3000, 60000), depth: 40},
	}
	for _, sc := range cfgs {
		if !enumerate(c, sc, scens) {
			return
		}
	}
	keys := make([]string, 0, len(scens))
	for k := range scens {
		keys = append(keys, k)
	}
	sort.Strings(keys)
	rng.Shuffle(len(keys), func(i, j int) { keys[i], keys[j] = keys[j], keys[i] })
	if max := c.Pick(1500, 60000); len(keys) > max {
		keys = keys[:max]
	}
	list := make([]*scenario, len(keys))
	for i, k := range keys {
		list[i] = scens[k]
		list[i].Y = 1 + rng.Intn(2)
		c.Distinct("unwind-yield/" + k)
	}
	fails, nd := evalScenarios(c, pool, list)
	c.Add("spec_guard_discards", nd)
	c.Add("traces_validated_against_impl", len(list)-nd)
	c.Add("evaluations", len(list))
	c.Set("unwind_families_with_suspension_points", len(list))
	// a failing family is re-evaluated without suspension points: the known finding is
	// attributed only if the family is right there and a deferred call runs during a panic
	var again []*scenario
	for _, f := range fails {
		d := *f.s
		d.Y = 0
		again = append(again, &d)
	}
	plainOK := map[string]bool{}
	if len(again) > 0 {
		fails2, _ := evalScenarios(c, pool, again)
		bad := map[string]bool{}
		for _, f := range fails2 {
			bad[f.s.raw] = true
		}
		for _, s := range again {
			plainOK[s.raw] = !bad[s.raw]
		}
	}
	for _, f := range fails {
		files := map[string]string{"scenario.json": f.s.raw + "\n", "yield_level.txt": strconv.Itoa(f.s.Y) + "\n", "predicted.txt": strings.Join(f.s.expected(), "\n") + "\nend=" + f.s.Out.End + "\n", "observed.txt": f.got.Raw + "\nend=" + f.got.End + " " + f.got.Msg + "\n"}
		for n, content := range render([]*scenario{f.s}) {
			files["prog/"+n] = content
		}
		pj, _ := json.Marshal(f.s.P)
		var keys []string
		raises := f.s.hasOp(func(o Op) bool {
			return o.Kind == "panic" || o.Kind == "rte" || o.Kind == "goexit" || (o.Kind == "defer" && (o.D.Kind == "panic" || o.D.Kind == "repanic"))
		})
		if plainOK[f.s.raw] && raises && f.s.hasOp(func(o Op) bool { return o.Kind == "defer" }) {
			keys = append(keys, "suspension_in_deferred_call_during_panic")
		}
		c.Report(core.Case{Keys: keys, Summary: fmt.Sprintf("defer/panic/recover family %s with suspension points (level %d): compiled program %s; without suspension points the same family prints the prediction: %v (native Go agrees with the specification)", pj, f.s.Y, f.why, plainOK[f.s.raw]), Files: files})
	}
}
