// Package c08 decides C08 (see DESIGN.md section 4). Not built yet.
package c08
