package c08

// Phase impl_model of C08: the implementation-shaped model spec/UnwindJS.tla (what the
// emitted try/catch/finally skeleton, $callDeferred/$runDeferred/$panic/$recover, the
// $methodExpr closure, the forwarding proxy and the $goroutine wrapper really do, one
// action per step) and its binding to the real code in both directions.
//
//  1. TLC explores the machine for exhaustive small configurations of the families of
//     UnwindScen.tla plus a seeded sample of three-function families, over the rendering
//     dimensions V (call kind: which wrapper frames stand between a call and the function)
//     and Y (suspension points).  It checks the machine's invariants and REFINEMENT: every
//     complete behaviour that took no deviation action prints and ends as Unwind!Run(P).
//     At the three NAMED deviation points the run explores the real step (mode "real")
//     and the step the reference prescribes (mode "fixed"); a second run with the
//     deviation constants FALSE is the machine without deviation actions.
//  2. model -> code: the outcome the machine predicts for the real tree (mode "" / "real")
//     must be what the compiled program prints.  A mismatch the reference accepts is
//     MODEL-DRIFT (printed, exit 0); a mismatch the reference rejects, confirmed by the
//     native guard, takes the ordinary C08 violation path (same classifier keys).
//  3. code -> model: event sequences recorded from the real $callDeferred / $panic /
//     $recover (js/unwind_trace.js) are validated against the machine by
//     spec/UnwindJSTrace.tla; one corrupted field must make a trace unacceptable.

import (
	"encoding/json"
	"fmt"
	"math/rand"
	"os"
	"path/filepath"
	"regexp"
	"sort"
	"strconv"
	"strings"
	"time"

	"verif/core"
	"verif/gjs"
	"verif/tlcx"
)

// implProg is one entry of c08_impl_params.json.
type implProg struct {
	ID int             `json:"id"`
	P  json.RawMessage `json:"P"`
	Vs []int           `json:"vs"`
	Ys []int           `json:"ys"`
	s  *scenario
}

// implOut is one complete (or cut) behaviour written by UnwindJS.tla's Emit.
type implOut struct {
	ID     int      `json:"id"`
	V      int      `json:"V"`
	Y      int      `json:"Y"`
	Out    outcome  `json:"out"`
	Dev    []string `json:"dev"`
	Mode   string   `json:"mode"`
	Agrees bool     `json:"agrees"`
	Ref    outcome  `json:"ref"` // Unwind!Run(P), one run
}

type combo struct{ id, v, y int }

func outLines(o outcome) []string { return (&scenario{Out: o}).lines() }

// twice is the expected output of the scenario program (the goroutine calls the family a
// second time when the first call returns; UnwindJS.tla's LeavesNoTrace is the reason the
// second run prints the same).
func twice(o outcome) []string {
	l := outLines(o)
	if o.End == "exit" {
		return append(append([]string{}, l...), l...)
	}
	return l
}

func agreeWith(o gjs.Obs, lines []string, want outcome) (bool, string) {
	if o.End != want.End {
		return false, fmt.Sprintf("ends with %s (%s), predicted %s", o.End, o.Msg, want.End)
	}
	w := twice(want)
	if len(lines) != len(w) {
		return false, fmt.Sprintf("printed %d lines, predicted %d", len(lines), len(w))
	}
	for i := range lines {
		if lines[i] != w[i] {
			return false, fmt.Sprintf("line %d is %q, predicted %q", i+1, lines[i], w[i])
		}
	}
	if o.End == "panic" {
		if pc := panicCode(o.Msg); pc >= 0 && pc != want.Val {
			return false, fmt.Sprintf("dies with panic value %q, predicted value number %d", o.Msg, want.Val)
		}
	}
	return true, ""
}

const ujPrefix = "@UJ "

// splitTrace separates the program's own lines from the wrapper events.
func splitTrace(lines []string) (prog []string, events []string) {
	for _, l := range lines {
		if strings.HasPrefix(l, ujPrefix) {
			events = append(events, "U"+l[len(ujPrefix):])
		} else {
			prog = append(prog, l)
			events = append(events, "P"+l)
		}
	}
	return
}

// batchRun is one compiled batch program.
type batchRun struct {
	dir  string
	obs  []gjs.Obs
	prog gjs.Prog
}

// observe compiles the batch (with the trace wrappers when inject is non-empty) and runs
// every scenario once under Node.
func observe(c *core.Ctx, pool *gjs.Pool, batch []*scenario, inject string) (*batchRun, bool) {
	prog := gjs.Prog{Files: render(batch)}
	dir, err := prog.Materialise(c.Scratch)
	if err != nil {
		c.Infra(err)
		return nil, false
	}
	out := filepath.Join(dir, "out.js")
	if err := pool.Build(dir, out, gjs.Opts{Inject: inject}); err != nil {
		if be, ok := err.(*gjs.BuildError); ok && be.Panic {
			c.Report(core.Case{Keys: []string{"compiler_panic"}, Summary: "compiler internal error: " + be.Error(), Files: prog.ReplayFiles("prog")})
		} else {
			c.Infra(fmt.Errorf("gopherjs build (impl_model): %v", err))
		}
		return nil, false
	}
	jobs := make([]gjs.Job, len(batch))
	for n := range batch {
		jobs[n] = gjs.Job{Args: []string{strconv.Itoa(n)}, MaxSteps: 2000}
	}
	obs, err := gjs.NodeMulti(out, jobs, 5*time.Minute)
	if err != nil {
		c.Infra(err)
		return nil, false
	}
	return &batchRun{dir: dir, obs: obs, prog: prog}, true
}

// pinnedFamilies: (1, 2) F1 defers F2 and calls Goexit; F2 calls F3, which has a defer statement, and carries on
// afterwards (deviation `goexit`). (3) while F1's panic runs F1's deferred calls, the deferred F2 calls F3, whose
// panic F2 recovers, so that `throw null` passes the wrapper frames of the call of F3; then F1's next deferred
// function recovers: the shape in which a $stackDepthOffset that is not restored (invariant OffsetBalance of
// UnwindJS.tla) becomes visible in the output.
var pinnedFamilies = []string{
	`[[["defer",["rec",11]],["defer",["call",2]],["panic",1]],[["defer",["rec",21]],["call",3]],[["panic",2]]]`,
	`[[["defer",["call",2]],["emit",11],["goexit"]],[["call",3],["emit",21]],[["defer",["emit",31]],["ret",6]]]`,
	`[[["defer",["call",2]],["goexit"]],[["defer",["rec",21]],["call",3],["emit",22]],[["defer",["rec",31]],["panic",1]]]`,
}

var coreOps = []string{"ret", "panic", "call", "recover", "goexit", "d.emit", "d.rec", "d.call"}

func famOps(s *scenario) int {
	n := 0
	for _, f := range s.P {
		n += len(f)
	}
	return n
}

func implModel(c *core.Ctx, pool *gjs.Pool, scens map[string]*scenario) {
	defer c.Phase("impl_model_traces")
	rng := rand.New(rand.NewSource(c.Seed + 808))
	// ---- 1. families and their rendering dimensions --------------------------------
	two := map[string]*scenario{}
	if !enumerate(c, scenCfg{name: "impl-two-functions-core", n: 2, l: []int{2, 1}, ops: coreOps}, two) {
		return
	}
	keysOf := func(m map[string]*scenario, pred func(*scenario) bool) []string {
		var ks []string
		for k, s := range m {
			if pred(s) {
				ks = append(ks, k)
			}
		}
		sort.Strings(ks)
		return ks
	}
	var progs []*implProg
	add := func(s *scenario, vs, ys []int) {
		pj, _ := json.Marshal(rawP(s))
		progs = append(progs, &implProg{ID: len(progs), P: pj, Vs: vs, Ys: ys, s: s})
	}
	// the machine has the same frames for the direct call, the method value (a bound function adds no
	// frame) and the function value: V = 3 and V = 5 are explored as V = 0 and replayed in all three forms
	allV := []int{0, 1, 2, 4}
	otherV := []int{1, 2, 4}
	hasRec := func(s *scenario) bool {
		return s.hasOp(func(o Op) bool { return o.Kind == "defer" && (o.D.Kind == "rec" || o.D.Kind == "call") })
	}
	hasDefer := func(s *scenario) bool { return s.hasOp(func(o Op) bool { return o.Kind == "defer" }) }
	// (a) every one-function family of at most three operations: direct rendering; every wrapper kind
	//     when a deferred method recovers (else one wrapper kind for a seeded quarter); suspension
	//     levels for a seeded part of the families that defer something
	one := keysOf(scens, func(s *scenario) bool { return len(s.P) == 1 && famOps(s) <= 3 })
	yBudget := c.Pick(250, 100000)
	nOne := 0
	for _, k := range one {
		s := scens[k]
		vs := []int{0}
		if hasRec(s) {
			vs = allV
		} else if c.Thorough() || rng.Intn(4) == 0 {
			vs = []int{0, otherV[rng.Intn(3)]}
		}
		ys := []int{0}
		if hasDefer(s) && yBudget > 0 && (c.Thorough() || rng.Intn(6) == 0) {
			ys = []int{0, 1, 2}
			yBudget--
		}
		add(s, vs, ys)
		nOne++
	}
	// (b) every two-function family over the operations that involve calls and recovery
	nTwo := 0
	for _, k := range keysOf(two, func(*scenario) bool { return true }) {
		ys := []int{0}
		if c.Thorough() || rng.Intn(8) == 0 {
			ys = []int{0, 1 + rng.Intn(2)}
		}
		add(two[k], allV, ys)
		nTwo++
	}
	// (c) a seeded sample of the three-function families of the main phase
	three := keysOf(scens, func(s *scenario) bool { return len(s.P) == 3 })
	rng.Shuffle(len(three), func(i, j int) { three[i], three[j] = three[j], three[i] })
	if max := c.Pick(100, 1500); len(three) > max {
		three = three[:max]
	}
	for _, k := range three {
		add(scens[k], []int{0, otherV[rng.Intn(3)]}, []int{0, 1 + rng.Intn(2)})
	}
	// (d) pinned families of the same alphabet that exhibit a deviation the seeded sample rarely contains
	//     (their reference outcome is taken from Unwind!Run(P) as evaluated inside the UnwindJS run)
	var pinned []*implProg
	for _, pj := range pinnedFamilies {
		s := &scenario{raw: `{"P":` + pj + `}`}
		if err := json.Unmarshal([]byte(s.raw), s); err != nil {
			c.Infra(fmt.Errorf("pinned family %s: %v", pj, err))
			return
		}
		add(s, allV, []int{0, 2})
		pinned = append(pinned, progs[len(progs)-1])
	}
	if c.Thorough() {
		four := keysOf(scens, func(s *scenario) bool { return len(s.P) == 1 && famOps(s) == 4 })
		rng.Shuffle(len(four), func(i, j int) { four[i], four[j] = four[j], four[i] })
		if len(four) > 2000 {
			four = four[:2000]
		}
		for _, k := range four {
			add(scens[k], []int{0, otherV[rng.Intn(3)]}, []int{0, 1 + rng.Intn(2)})
		}
	}
	c.Set("impl_model_families", len(progs))
	c.Set("impl_model_configs", fmt.Sprintf("exhaustive: %d one-function families (<= 3 operations, all 17 operation kinds) and %d two-function families (bodies <= 2 and <= 1 operations over %v); seeded sample: %d three-function families; dimensions: wrapper frames V (direct / $methodExpr+proxy / $methodExpr / proxy: all four where a deferred method or function recovers, else direct and one other for a seeded part), suspension level Y (0, and 1/2 for a seeded part)", nOne, nTwo, coreOps, len(three)))

	// ---- 2. TLC: invariants and refinement ------------------------------------------
	params := func(ps []*implProg) string {
		b, _ := json.Marshal(map[string]any{"out": "impl", "progs": ps})
		return string(b)
	}
	cfg := func(dev, branch bool, runs int, inv string) string {
		t := map[bool]string{true: "TRUE", false: "FALSE"}
		return fmt.Sprintf("SPECIFICATION Spec\nCONSTANTS DevProxy = %s\n DevSuspend = %s\n DevGoexit = FALSE\n Branch = %s\n Runs = %d\nINVARIANT %s\nCHECK_DEADLOCK FALSE\n", t[dev], t[dev], t[branch], runs, inv) // DevGoexit: the deviation was repaired in /repo (177c15f)
	}
	const invs = "TypeOK LeavesNoTrace OffsetBalance PsdScoped ListOnTop RunOnce OwnerAlive Refines Emit"
	runModel := func(ps []*implProg, dev, branch bool, what string) (map[combo][]implOut, *tlcx.Result, bool) {
		r, err := tlcx.Run(c, tlcx.Opts{Module: "UnwindJS", Cfg: cfg(dev, branch, 1, invs), Workers: tlcWorkers(c), Timeout: time.Duration(c.Pick(15, 60)) * time.Minute,
			Files: map[string]string{"c08_impl_params.json": params(ps)}})
		if err != nil {
			c.Infra(err)
			return nil, nil, false
		}
		if r.Violated != "" && r.Violated != "error" {
			// an invariant (or the refinement) of the implementation-shaped model fails: a statement
			// about the model, never a verdict about the code by itself
			fmt.Printf("MODEL-ALERT: UnwindJS.tla (%s) violates %s (see evidence); the replay of the reference semantics decides the property\n", what, r.Violated)
			c.Set("impl_model_invariant_violated", what+": "+r.Violated)
			c.Set("impl_model_counterexample_tail", tlcx.Tail(r.Output, 60))
			c.Set("impl_model_refinement_holds", false)
			return nil, r, false
		}
		if !r.Completed {
			if r.TimedOut {
				c.Set("impl_model", "exploration timed out; skipped in this run")
				return nil, r, false
			}
			c.Infra(fmt.Errorf("UnwindJS.tla (%s): TLC failed: %s\n%s", what, r.Violated, tlcx.Tail(r.Output, 40)))
			return nil, r, false
		}
		outs := map[combo][]implOut{}
		files, _ := filepath.Glob(filepath.Join(r.Dir, "impl.*.ndjson"))
		for _, f := range files {
			err := tlcx.ReadNDJSON(f, func(raw json.RawMessage) error {
				var inner string
				if err := json.Unmarshal(raw, &inner); err != nil {
					return fmt.Errorf("torn line in %s", f)
				}
				var o implOut
				if err := json.Unmarshal([]byte(inner), &o); err != nil {
					return fmt.Errorf("bad record in %s: %v", f, err)
				}
				k := combo{o.ID, o.V, o.Y}
				outs[k] = append(outs[k], o)
				return nil
			})
			if err != nil {
				c.Infra(fmt.Errorf("reading the outcomes of UnwindJS.tla: %v", err))
				return nil, r, false
			}
		}
		os.RemoveAll(r.Dir)
		return outs, r, true
	}
	outs, r, ok := runModel(progs, true, true, "deviation points explored both ways")
	if !ok {
		return
	}
	c.Set("impl_model_states", r.Distinct)
	for _, p := range pinned {
		o := outs[combo{p.ID, 0, 0}]
		if len(o) == 0 {
			c.Infra(fmt.Errorf("UnwindJS.tla wrote no behaviour for pinned family %d", p.ID))
			return
		}
		p.s.Out = o[0].Ref
		p.s.want = p.s.lines()
		ob, _ := json.Marshal(p.s.Out)
		p.s.raw = `{"P":` + string(p.P) + `,"out":` + string(ob) + `}`
	}
	// per combination: the behaviour of the real tree and the behaviour without deviation actions
	realOf := map[combo]implOut{}
	devFam := map[string]map[int]bool{}
	nBeh, nCut, nFixedAgree, nNeutral := 0, 0, 0, 0
	refines := true
	var combos []combo
	for _, p := range progs {
		for _, v := range p.Vs {
			for _, y := range p.Ys {
				k := combo{p.ID, v, y}
				combos = append(combos, k)
				haveReal, haveRef := false, false
				for _, o := range outs[k] {
					nBeh++
					switch {
					case o.Out.End == "cut":
						nCut++
						haveRef = true
					case o.Mode == "":
						nNeutral++
						realOf[k], haveReal, haveRef = o, true, true
						refines = refines && o.Agrees
					case o.Mode == "real":
						realOf[k], haveReal = o, true
						for _, d := range o.Dev {
							if devFam[d] == nil {
								devFam[d] = map[int]bool{}
							}
							devFam[d][p.ID] = true
						}
					case o.Mode == "fixed":
						nFixedAgree++
						haveRef = true
						refines = refines && o.Agrees
					}
				}
				if !haveReal || !haveRef {
					c.Infra(fmt.Errorf("UnwindJS.tla wrote no complete behaviour for family %d V=%d Y=%d (real=%v, without deviations=%v)", p.ID, v, y, haveReal, haveRef))
					return
				}
			}
		}
	}
	c.Set("impl_model_behaviours", nBeh)
	c.Set("impl_model_combinations", len(combos))
	c.Set("impl_model_refinement_holds", refines)
	c.Set("impl_model_behaviours_cut_without_suspend_deviation", nCut)
	df := map[string]int{}
	all := map[int]bool{}
	for d, m := range devFam {
		df[d] = len(m)
		for id := range m {
			all[id] = true
		}
	}
	c.Set("impl_model_deviation_families", len(all))
	c.Set("impl_model_deviation_families_by_action", df)
	// the machine without deviation actions (the constant switch): every complete behaviour refines
	{
		var sub []*implProg
		for _, p := range progs {
			if len(p.s.P) == 2 || (c.Thorough() && len(p.s.P) == 1 && famOps(p.s) <= 3) {
				sub = append(sub, p)
			}
		}
		if _, r2, ok := runModel(sub, false, false, "deviation constants FALSE"); ok {
			c.Set("impl_model_states_without_deviation_actions", r2.Distinct)
			c.Set("impl_model_refinement_without_deviation_actions", fmt.Sprintf("holds on %d families (TLC: invariant Refines, no error)", len(sub)))
		} else {
			return
		}
	}
	c.Phase("impl_model_tlc")

	// ---- 3. model -> code ---------------------------------------------------------------
	// every combination whose real behaviour takes a deviation action (bounded) + a seeded sample
	var devC, plainC []combo
	for _, k := range combos {
		if len(realOf[k].Dev) > 0 {
			devC = append(devC, k)
		} else {
			plainC = append(plainC, k)
		}
	}
	rng.Shuffle(len(devC), func(i, j int) { devC[i], devC[j] = devC[j], devC[i] })
	rng.Shuffle(len(plainC), func(i, j int) { plainC[i], plainC[j] = plainC[j], plainC[i] })
	// the rare deviation first, so that it is always replayed
	sort.SliceStable(devC, func(i, j int) bool {
		return hasDev(realOf[devC[i]].Dev, "goexit") && !hasDev(realOf[devC[j]].Dev, "goexit")
	})
	if max := c.Pick(250, 5000); len(devC) > max {
		devC = devC[:max]
	}
	if max := c.Pick(750, 15000); len(plainC) > max {
		plainC = plainC[:max]
	}
	chosen := append(append([]combo{}, devC...), plainC...)
	{ // the pinned families are always replayed, in every explored rendering
		in := map[combo]bool{}
		for _, k := range chosen {
			in[k] = true
		}
		for _, p := range pinned {
			for _, v := range p.Vs {
				for _, y := range p.Ys {
					if k := (combo{p.ID, v, y}); !in[k] {
						chosen = append(chosen, k)
					}
				}
			}
		}
	}
	// the rendering of a combination: the machine's V = 0 stands for the three call kinds without wrapper frames
	rendV := map[combo]int{}
	for _, k := range chosen {
		rendV[k] = k.v
		// (not where the rendering differs in more than frames: at Y >= 1 only the closure form of a
		// recovering deferred function starts with a yield)
		if k.v == 0 && (k.y == 0 || !progs[k.id].s.hasOp(func(o Op) bool { return o.Kind == "defer" && o.D.Kind == "rec" })) {
			rendV[k] = []int{vDirect, vDirect, vMethVal, vFuncVal}[rng.Intn(4)]
		}
	}
	mk := func(k combo) *scenario {
		d := *progs[k.id].s
		d.V, d.Y = rendV[k], k.y
		return &d
	}
	const per = 200
	nb := (len(chosen) + per - 1) / per
	type verdict struct {
		k        combo
		s        *scenario
		got      gjs.Obs
		why      string
		drift    bool
		violates bool
		goexit   bool
	}
	res := make([][]verdict, nb)
	confirmed := make([]int, nb)
	matched := make([]int, nb)
	discards := make([]int, nb)
	c.ParMap(nb, func(bi int) {
		lo, hi := bi*per, (bi+1)*per
		if hi > len(chosen) {
			hi = len(chosen)
		}
		batch := make([]*scenario, hi-lo)
		for i := range batch {
			batch[i] = mk(chosen[lo+i])
		}
		br, ok := observe(c, pool, batch, "")
		if !ok {
			return
		}
		bin := ""
		for i, s := range batch {
			k := chosen[lo+i]
			o := br.obs[i]
			model := realOf[k].Out
			nativeAgrees := func() (bool, bool) {
				if bin == "" {
					bin = filepath.Join(br.dir, "native.bin")
					if r := gjs.NativeBuild(br.dir, bin); r.ExitCode != 0 || r.Err != nil {
						c.Infra(fmt.Errorf("reference toolchain rejected a generated program: %s", r.Out))
						return false, false
					}
				}
				nat := gjs.ClassifyNative(gjs.NativeRun(bin, 20*time.Second, nil, strconv.Itoa(i)))
				ok, _ := agreeWith(nat, nat.Lines, s.Out)
				return ok, true
			}
			if ok, _ := agreeWith(o, o.Lines, model); ok {
				matched[bi]++
				if len(realOf[k].Dev) > 0 {
					confirmed[bi]++
				}
				// the deviations `proxy` and `suspend` are reported by the main phase of C08 and by C02 (their
				// classifier keys); `goexit` has no scenario class of its own there: it is raised here
				if hasDev(realOf[k].Dev, "goexit") {
					if refOK, _ := agreeWith(o, o.Lines, s.Out); !refOK {
						nat, built := nativeAgrees()
						if !built {
							return
						}
						if !nat {
							discards[bi]++
							continue
						}
						_, whyRef := agreeWith(o, o.Lines, s.Out)
						res[bi] = append(res[bi], verdict{k: k, s: s, got: o, why: whyRef, violates: true, goexit: true})
					}
				}
				continue
			}
			_, why := agreeWith(o, o.Lines, model)
			if ok, _ := agreeWith(o, o.Lines, s.Out); ok {
				// the reference accepts what the program did: only the implementation model is wrong
				res[bi] = append(res[bi], verdict{k: k, s: s, got: o, why: why, drift: true})
				continue
			}
			// the reference rejects the observation: the guard decides whether this is a verdict
			nat, built := nativeAgrees()
			if !built {
				return
			}
			if !nat {
				discards[bi]++
				continue
			}
			_, whyRef := agreeWith(o, o.Lines, s.Out)
			res[bi] = append(res[bi], verdict{k: k, s: s, got: o, why: whyRef, violates: true})
		}
	})
	nMatched, nConfirmed, nDisc, drift := 0, 0, 0, 0
	var viol []verdict
	for bi := range res {
		nMatched += matched[bi]
		nConfirmed += confirmed[bi]
		nDisc += discards[bi]
		for _, v := range res[bi] {
			if v.drift {
				drift++
				if drift == 1 {
					pj, _ := json.Marshal(rawP(v.s))
					fmt.Printf("MODEL-DRIFT: UnwindJS.tla predicts another outcome than the compiled program shows for family %s (calls as %s, suspension level %d): %s; the reference semantics accepts the program's behaviour (no verdict)\n", pj, variantNames[v.s.V], v.k.y, v.why)
					c.Set("model_drift_sample", map[string]any{"family": json.RawMessage(pj), "variant": variantNames[v.s.V], "yield_level": v.k.y, "model_predicts": realOf[v.k].Out, "observed": v.got.Raw, "end": v.got.End})
				}
			} else {
				viol = append(viol, v)
			}
		}
	}
	c.Set("impl_model_outcomes_compared_with_compiled_programs", len(chosen))
	c.Set("impl_model_outcomes_equal", nMatched)
	c.Set("impl_model_deviation_outcomes_confirmed_on_compiled_programs", nConfirmed)
	c.Add("spec_guard_discards", nDisc)
	c.Add("traces_validated_against_impl", nMatched)
	// observations neither the implementation model nor the reference explains: the ordinary C08
	// violation path. The known-finding keys are attributed as in runScenarios / RunYield: only when
	// the same family is right in the plain rendering.
	if len(viol) > 0 {
		var again []*scenario
		for _, v := range viol {
			if v.s.V != vDirect || v.k.y != 0 {
				d := *v.s
				d.V, d.Y = vDirect, 0
				again = append(again, &d)
			}
		}
		plainOK := map[string]bool{}
		if len(again) > 0 {
			fails2, _ := evalScenarios(c, pool, again)
			bad := map[string]bool{}
			for _, f := range fails2 {
				bad[f.s.raw] = true
			}
			for _, s := range again {
				plainOK[s.raw] = !bad[s.raw]
			}
		}
		for _, v := range viol {
			files := map[string]string{"scenario.json": v.s.raw + "\n", "variant.txt": variantNames[v.s.V] + "\n", "yield_level.txt": strconv.Itoa(v.k.y) + "\n",
				"predicted.txt": strings.Join(v.s.expected(), "\n") + "\nend=" + v.s.Out.End + "\n",
				"impl_model_predicted.txt": strings.Join(twice(realOf[v.k].Out), "\n") + "\nend=" + realOf[v.k].Out.End + "\n",
				"observed.txt":             v.got.Raw + "\nend=" + v.got.End + " " + v.got.Msg + "\n"}
			for n, content := range render([]*scenario{v.s}) {
				files["prog/"+n] = content
			}
			keys := classify(v.s)
			if v.goexit {
				keys = append(keys, "goexit_unwinds_function_called_by_deferred_call")
			}
			if wrapperShape(v.s) && plainOK[v.s.raw] {
				keys = append(keys, "recover_in_deferred_value_receiver_method:"+variantNames[v.s.V])
			}
			pj, _ := json.Marshal(rawP(v.s))
			expl := "neither Unwind.tla nor the implementation model UnwindJS.tla (pinned tree incl. its known deviations) explains it"
			if v.goexit {
				expl = "UnwindJS.tla explains it by the deviation action DevGoexitUnwindsLateFrame ($callDeferred rethrows null for a frame entered after Goexit began)"
			}
			c.Report(core.Case{Keys: keys, Summary: fmt.Sprintf("defer/panic/recover scenario %s (calls rendered as %s, suspension level %d): compiled program %s; %s (native Go agrees with the specification)", pj, variantNames[v.s.V], v.k.y, v.why, expl), Files: files})
		}
	}
	c.Phase("impl_model_replay")

	// ---- 4. code -> model: trace validation ---------------------------------------------
	nTr := c.Pick(150, 1500)
	var trC []combo
	trC = append(trC, devC[:minInt(len(devC), nTr/3)]...)
	trC = append(trC, plainC[:minInt(len(plainC), nTr-len(trC))]...)
	wrapper, err := os.ReadFile(filepath.Join(core.Root, "js", "unwind_trace.js"))
	if err != nil {
		c.Infra(err)
		return
	}
	type exec struct {
		k     combo
		lines []string // trace lines (ndjson) of this execution
		raw   string
	}
	nbt := (len(trC) + per - 1) / per
	execs := make([][]exec, nbt)
	distort := make([]int, nbt)
	c.ParMap(nbt, func(bi int) {
		lo, hi := bi*per, (bi+1)*per
		if hi > len(trC) {
			hi = len(trC)
		}
		batch := make([]*scenario, hi-lo)
		for i := range batch {
			batch[i] = mk(trC[lo+i])
		}
		br, ok := observe(c, pool, batch, string(wrapper))
		if !ok {
			return
		}
		for i := range batch {
			k := trC[lo+i]
			o := br.obs[i]
			progLines, events := splitTrace(o.Lines)
			// the wrappers must not change what the program prints
			if ok, _ := agreeWith(o, progLines, realOf[k].Out); !ok {
				if ok2, _ := agreeWith(o, progLines, batch[i].Out); !ok2 {
					distort[bi]++
					continue
				}
			}
			execs[bi] = append(execs[bi], exec{k: k, lines: traceLines(k, events, o), raw: o.Raw})
		}
	})
	var allEx []exec
	nDist := 0
	for bi := range execs {
		allEx = append(allEx, execs[bi]...)
		nDist += distort[bi]
	}
	c.Set("impl_traces_recorded", len(allEx))
	if nDist > 0 {
		c.Set("impl_traces_not_judged_output_differs_with_wrappers", nDist)
	}
	validateTraces := func(ex []exec) (rejected []int, ok bool) {
		start := 0
		for start < len(ex) {
			var b strings.Builder
			n := 0
			for _, x := range ex[start:] {
				for _, l := range x.lines {
					b.WriteString(l)
					b.WriteByte('\n')
					n++
				}
			}
			r, err := tlcx.Run(c, tlcx.Opts{Module: "UnwindJSTrace", Workers: 1, DFS: true, Timeout: 15 * time.Minute,
				Cfg:   "SPECIFICATION TSpec\nCONSTANTS DevProxy = TRUE\n DevSuspend = TRUE\n DevGoexit = FALSE\n Branch = FALSE\n Runs = 2\nINVARIANT NotAccepted\nCONSTRAINT HW\nPOSTCONDITION HWReport\nCHECK_DEADLOCK FALSE\n",
				Files: map[string]string{"c08_impl_params.json": params(progs), "c08_impl_trace.ndjson": b.String()}})
			if err != nil {
				c.Infra(err)
				return nil, false
			}
			os.RemoveAll(r.Dir)
			if r.Violated == "NotAccepted" {
				return rejected, true
			}
			if !r.Completed {
				c.Infra(fmt.Errorf("UnwindJSTrace: trace validation did not complete: %s\n%s", r.Violated, tlcx.Tail(r.Output, 30)))
				return nil, false
			}
			m := reHWMark.FindAllStringSubmatch(r.Output, -1)
			if len(m) == 0 {
				c.Infra(fmt.Errorf("UnwindJSTrace: no high-water mark in TLC output\n%s", tlcx.Tail(r.Output, 30)))
				return nil, false
			}
			hw, _ := strconv.Atoi(m[len(m)-1][1])
			cnt, idx := 0, -1
			for i, x := range ex[start:] {
				if hw+1 <= cnt+len(x.lines) {
					idx = i
					break
				}
				cnt += len(x.lines)
			}
			if idx < 0 {
				c.Infra(fmt.Errorf("UnwindJSTrace: high-water mark %d beyond the batch of %d lines", hw, n))
				return nil, false
			}
			rejected = append(rejected, start+idx)
			ex[start+idx].raw += fmt.Sprintf("\nfirst unexplained trace line (number %d of this execution): %s\n", hw+1-cnt, ex[start+idx].lines[hw-cnt])
			start += idx + 1
			if len(rejected) >= 5 {
				c.Add("impl_trace_validation_stopped_early_after_rejections", 1)
				break
			}
		}
		return rejected, true
	}
	rej, ok := validateTraces(allEx)
	if !ok {
		return
	}
	c.Set("impl_traces_validated", len(allEx)-len(rej))
	c.Set("impl_traces_rejected", len(rej))
	for i, ri := range rej {
		x := allEx[ri]
		pj, _ := json.Marshal(rawP(progs[x.k.id].s))
		if i == 0 {
			fmt.Printf("MODEL-DRIFT: the event sequence recorded from the real $callDeferred/$panic/$recover for family %s (calls as %s, suspension level %d) is not a behaviour of UnwindJS.tla (no verdict: the reference semantics decides on the printed output)\n", pj, variantNames[rendV[x.k]], x.k.y)
			c.Set("model_drift_trace_sample", map[string]any{"family": json.RawMessage(pj), "variant": variantNames[rendV[x.k]], "yield_level": x.k.y, "raw": x.raw})
		}
	}
	c.Set("model_drift", drift+len(rej))
	// non-vacuity: one corrupted field makes an accepted trace unacceptable
	if len(allEx) > len(rej) && len(rej) == 0 {
		var pick []exec
		for _, x := range allEx {
			if len(pick) < 1 && len(x.lines) > 6 {
				pick = append(pick, exec{k: x.k, lines: append([]string{}, x.lines...)})
			}
		}
		if len(pick) > 0 {
			what := corrupt(pick[len(pick)-1].lines, rng)
			r2, ok := validateTraces(pick)
			if !ok {
				return
			}
			c.Set("impl_trace_corruption", what)
			c.Set("impl_trace_corruption_rejected", len(r2) > 0)
			if len(r2) == 0 {
				c.Infra(fmt.Errorf("trace validation is vacuous: a trace with a corrupted field (%s) was accepted by UnwindJSTrace", what))
				return
			}
		}
	}
	c.Set("checker_cmd_impl_model", "tlc UnwindJS (INVARIANT "+invs+"; Branch=TRUE and all deviation constants FALSE); tlc UnwindJSTrace (INVARIANT NotAccepted, -workers 1, depth-first queue)")
}

// tlcWorkers: at most 4 TLC workers, fewer when the run is told to use few workers (VERIF_WORKERS).
func tlcWorkers(c *core.Ctx) int {
	if c.Workers < 8 {
		return 2
	}
	return 4
}

func hasDev(dev []string, d string) bool {
	for _, x := range dev {
		if x == d {
			return true
		}
	}
	return false
}

func minInt(a, b int) int {
	if a < b {
		return a
	}
	return b
}

var reHWMark = regexp.MustCompile(`"HIGHWATER", (\d+)`)

func rawP(s *scenario) json.RawMessage {
	var rec struct {
		P json.RawMessage `json:"P"`
	}
	json.Unmarshal([]byte(s.raw), &rec)
	return rec.P
}

type traceLine struct {
	E   string `json:"e"`
	Ps  int    `json:"ps"`
	Ds  int    `json:"ds"`
	Pn  bool   `json:"pn"`
	Off int    `json:"off"`
	X   int    `json:"x"`
	T   []any  `json:"t"`
}

// traceLines renders one execution for UnwindJSTrace.tla: reset, the events and program
// lines in their real order, end.
func traceLines(k combo, events []string, o gjs.Obs) []string {
	enc := func(t traceLine) string {
		if t.T == nil {
			t.T = []any{}
		}
		b, _ := json.Marshal(t)
		return string(b)
	}
	out := []string{enc(traceLine{E: "reset", Pn: true, X: k.id + 1, T: []any{k.v, k.y}})}
	for _, e := range events {
		if e[0] == 'U' {
			var t traceLine
			if json.Unmarshal([]byte(e[1:]), &t) == nil {
				out = append(out, enc(t))
			}
			continue
		}
		f := strings.Fields(e[1:])
		if len(f) < 2 {
			continue
		}
		t := traceLine{E: "print", Pn: true, T: []any{f[0]}}
		okNum := true
		for _, x := range f[1:] {
			n, err := strconv.Atoi(x)
			if err != nil {
				okNum = false
				break
			}
			t.T = append(t.T, n)
		}
		if okNum {
			out = append(out, enc(t))
		}
	}
	x := -1
	if o.End == "panic" {
		x = panicCode(o.Msg)
	}
	return append(out, enc(traceLine{E: "end", Pn: true, X: x, T: []any{o.End}}))
}

// corrupt changes one logged field of one wrapper event and says which.
func corrupt(lines []string, rng *rand.Rand) string {
	var idx []int
	for i, l := range lines {
		if strings.Contains(l, `"e":"cd.`) || strings.Contains(l, `"e":"recover.`) || strings.Contains(l, `"e":"panic.`) {
			idx = append(idx, i)
		}
	}
	if len(idx) == 0 {
		return "nothing to corrupt"
	}
	i := idx[rng.Intn(len(idx))]
	var t traceLine
	json.Unmarshal([]byte(lines[i]), &t)
	var what string
	switch rng.Intn(4) {
	case 0:
		t.Off--
		what = "$stackDepthOffset - 1"
	case 1:
		t.Ds++
		what = "deferStack.length + 1"
	case 2:
		t.Ps++
		what = "panicStack.length + 1"
	default:
		t.Pn = !t.Pn
		what = "($panicStackDepth === null) negated"
	}
	b, _ := json.Marshal(t)
	lines[i] = string(b)
	return fmt.Sprintf("%s in event %s (line %d of the execution)", what, t.E, i+1)
}
