//go:build verif

package c08

import (
	"encoding/json"
	"fmt"
	"os"
	"testing"

	"verif/core"
	"verif/gjs"
)

func TestMain(m *testing.M) { gjs.MaybeWorker(); os.Exit(m.Run()) }

// development aid: the impl_model phase alone (go test -tags "verif prop_c08" -run TestImplDev)
func TestImplDev(t *testing.T) {
	if os.Getenv("VERIF_C08_IMPL_DEV") == "" {
		t.Skip("development aid; set VERIF_C08_IMPL_DEV=1")
	}
	gjs.Init()
	tier := "quick"
	if os.Getenv("DEV_TIER") != "" {
		tier = os.Getenv("DEV_TIER")
	}
	c, err := core.NewCtx("C08", tier)
	if err != nil {
		t.Fatal(err)
	}
	pool := gjs.NewPool(c.Workers)
	scens := map[string]*scenario{}
	for _, sc := range []scenCfg{{name: "one-function", n: 1, l: []int{3}, ops: allOps}, {name: "sim-3", n: 3, l: []int{3, 3, 3}, ops: allOps, sim: 6000, depth: 40}} {
		if !enumerate(c, sc, scens) {
			t.Fatal("enumerate")
		}
	}
	c.Phase("enumerate")
	implModel(c, pool, scens)
	code := c.Finish("model_checking")
	b, _ := json.MarshalIndent(c.Cov, "", " ")
	fmt.Println(string(b))
	pool.Close()
	if os.Getenv("VERIF_KEEP") == "" {
		c.Close()
	}
	fmt.Println("exit code", code)
}
