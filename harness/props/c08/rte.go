package c08

import (
	"encoding/json"
	"fmt"
	"path/filepath"
	"regexp"
	"sort"
	"strconv"
	"strings"
	"time"

	"verif/core"
	"verif/gjs"
	"verif/tlcx"
)

// Go templates of the operation kinds of RtePanics.tla. T = value when the
// operation must fail, F = value when it must succeed.  o1..o3 are the operand
// calls; each prints "o i" first.
type rteTmpl struct {
	decls string // operand function declarations using $T (trig bool in scope as `trig`)
	stmt  string // the statement
}

var rteTemplates = map[string]rteTmpl{
	"index_array_read": {`o1 := func() [3]int { println("o", 1); return [3]int{1, 2, 3} }
	o2 := func() int { println("o", 2); if trig { return 5 }; return 1 }`, `x := o1()[o2()]; _ = x`},
	"index_slice_read": {`o1 := func() []int { println("o", 1); return []int{1, 2, 3} }
	o2 := func() int { println("o", 2); if trig { return 3 }; return 1 }`, `x := o1()[o2()]; _ = x`},
	"index_string_read": {`o1 := func() string { println("o", 1); return "abc" }
	o2 := func() int { println("o", 2); if trig { return 3 }; return 1 }`, `x := o1()[o2()]; _ = x`},
	"index_arrptr_nil": {`var arr [3]int
	o1 := func() *[3]int { println("o", 1); if trig { return nil }; return &arr }
	o2 := func() int { println("o", 2); return 1 }`, `x := o1()[o2()]; _ = x`},
	"index_slice_store": {`sl := []int{1, 2, 3}
	o1 := func() []int { println("o", 1); return sl }
	o2 := func() int { println("o", 2); if trig { return -1 }; return 1 }
	o3 := func() int { println("o", 3); return 7 }`, `o1()[o2()] = o3()`},
	"index_array_store": {`var arr [3]int
	o1 := func() int { println("o", 1); if trig { return 3 }; return 1 }
	o2 := func() int { println("o", 2); return 7 }`, `arr[o1()] = o2(); _ = arr`},
	"slice_bounds": {`o1 := func() []int { println("o", 1); return []int{1, 2, 3} }
	o2 := func() int { println("o", 2); return 1 }
	o3 := func() int { println("o", 3); if trig { return 5 }; return 2 }`, `x := o1()[o2():o3()]; _ = x`},
	"nil_map_store": {`o1 := func() map[int]int { println("o", 1); if trig { return nil }; return map[int]int{} }
	o2 := func() int { println("o", 2); return 1 }
	o3 := func() int { println("o", 3); return 7 }`, `o1()[o2()] = o3()`},
	"nil_ptr_load": {`type S struct{ f int }
	var s S
	o1 := func() *S { println("o", 1); if trig { return nil }; return &s }`, `x := o1().f; _ = x`},
	"nil_ptr_store": {`type S struct{ f int }
	var s S
	o1 := func() *S { println("o", 1); if trig { return nil }; return &s }
	o2 := func() int { println("o", 2); return 7 }`, `o1().f = o2()`},
	"nil_func_call": {`o1 := func() func(int) { println("o", 1); if trig { return nil }; return func(int) {} }
	o2 := func() int { println("o", 2); return 7 }`, `o1()(o2())`},
	"int_div_zero": {`o1 := func() int32 { println("o", 1); return 7 }
	o2 := func() int32 { println("o", 2); if trig { return 0 }; return 2 }`, `x := o1() / o2(); _ = x`},
	"int_rem_zero": {`o1 := func() int64 { println("o", 1); return 7 }
	o2 := func() int64 { println("o", 2); if trig { return 0 }; return 2 }`, `x := o1() % o2(); _ = x`},
	"assert_single": {`o1 := func() any { println("o", 1); if trig { return "s" }; return 1 }`, `x := o1().(int); _ = x`},
	"iface_uncomparable": {`o1 := func() any { println("o", 1); if trig { return []int{1} }; return 1 }
	o2 := func() any { println("o", 2); if trig { return []int{1} }; return 1 }`, `x := o1() == o2(); _ = x`},
	"make_negative":  {`o1 := func() int { println("o", 1); if trig { return -1 }; return 2 }`, `x := make([]int, o1()); _ = x`},
	"slice_to_array": {`o1 := func() []int { println("o", 1); if trig { return []int{1, 2} }; return []int{1, 2, 3, 4} }`, `x := [4]int(o1()); _ = x`},
	"close_nil":      {`o1 := func() chan int { println("o", 1); if trig { return nil }; return make(chan int) }`, `close(o1())`},
	"close_closed":   {`o1 := func() chan int { println("o", 1); c := make(chan int); if trig { close(c) }; return c }`, `close(o1())`},
	"send_closed": {`o1 := func() chan int { println("o", 1); c := make(chan int, 1); if trig { close(c) }; return c }
	o2 := func() int { println("o", 2); return 7 }`, `o1() <- o2()`},
}

const rtePrelude = `package main

import "runtime"

func has(s, sub string) bool {
	for i := 0; i+len(sub) <= len(s); i++ {
		if s[i:i+len(sub)] == sub {
			return true
		}
	}
	return false
}

func code(r any) int {
	m := ""
	if e, ok := r.(error); ok {
		m = e.Error()
	} else if s, ok := r.(string); ok {
		m = s
	}
	switch {
	case has(m, "index out of range"):
		return 1
	case has(m, "slice bounds out of range"):
		return 2
	case has(m, "nil map"):
		return 3
	case has(m, "nil pointer dereference"):
		return 4
	case has(m, "divide by zero"):
		return 5
	case has(m, "interface conversion"):
		return 6
	case has(m, "comparing uncomparable"):
		return 7
	case has(m, "len out of range"):
		return 8
	case has(m, "cannot convert slice"):
		return 9
	case has(m, "close of nil channel"):
		return 10
	case has(m, "close of closed channel"):
		return 11
	case has(m, "send on closed channel"):
		return 12
	}
	return 0
}

func rrec() {
	if r := recover(); r != nil {
		_, isRte := r.(runtime.Error)
		n := 0
		if isRte {
			n = 1
		}
		println("P", code(r), n)
	}
}

`

type rteScen struct {
	CK   string              `json:"ck"`
	Kind string              `json:"kind"`
	N    int                 `json:"n"`
	Code int                 `json:"code"`
	Trig bool                `json:"trig"`
	Obs  [][]json.RawMessage `json:"obs"`
	raw  string
}

func (s *rteScen) lines() []string {
	var ls []string
	for _, t := range s.Obs {
		var parts []string
		for _, x := range t {
			var str string
			if json.Unmarshal(x, &str) == nil {
				parts = append(parts, str)
			} else {
				parts = append(parts, string(x))
			}
		}
		ls = append(ls, strings.Join(parts, " "))
	}
	return ls
}

var reOperand = regexp.MustCompile(`(?m)^\s*(o\d) := func\(\) (.*?) \{(.*)\}$`)

func renderRte(scens []*rteScen) map[string]string {
	var b strings.Builder
	b.WriteString(rtePrelude)
	for n, s := range scens {
		t := rteTemplates[s.Kind]
		// operand functions become package-level functions r<n>_o<i>; other
		// declarations of the template (types, variables) become package-level too
		var locals []string
		fmt.Fprintf(&b, "var trig%d = %v\n", n, s.Trig)
		for _, line := range strings.Split(t.decls, "\n") {
			line = strings.TrimSpace(line)
			if m := reOperand.FindStringSubmatch(line); m != nil {
				body := strings.ReplaceAll(m[3], "trig", fmt.Sprintf("trig%d", n))
				body = renameLocals(body, n)
				fmt.Fprintf(&b, "func r%d_%s() %s {%s}\n", n, m[1], renameLocals(m[2], n), body)
				if s.CK == "value" {
					locals = append(locals, fmt.Sprintf("%s := r%d_%s", m[1], n, m[1]))
				} else {
					locals = append(locals, fmt.Sprintf("%s := 0; _ = %s", m[1]+"unused", m[1]+"unused"))
				}
				continue
			}
			// type S struct{...}, var s S, var arr [3]int, sl := []int{...}
			switch {
			case strings.HasPrefix(line, "type "), strings.HasPrefix(line, "var "):
				fmt.Fprintf(&b, "%s\n", renameLocals(line, n))
			case strings.Contains(line, ":="):
				parts := strings.SplitN(line, ":=", 2)
				fmt.Fprintf(&b, "var %s = %s\n", renameLocals(strings.TrimSpace(parts[0]), n), renameLocals(parts[1], n))
			}
		}
		stmt := renameLocals(t.stmt, n)
		if s.CK != "value" {
			for i := 1; i <= 3; i++ {
				stmt = strings.ReplaceAll(stmt, fmt.Sprintf("o%d()", i), fmt.Sprintf("r%d_o%d()", n, i))
			}
		}
		fmt.Fprintf(&b, "func r%d() {\n\tdefer rrec()\n\t%s\n\t%s\n\tprintln(\"ok\")\n\tprintln(\"after\")\n}\n\n", n, strings.Join(locals, "\n\t"), stmt)
	}
	b.WriteString("func main() {\n\tswitch argN() {\n")
	for n := range scens {
		fmt.Fprintf(&b, "\tcase %d:\n\t\tr%d()\n", n, n)
	}
	b.WriteString("\t}\n}\n")
	return map[string]string{"main.go": b.String(), "args_js.go": argsJS, "args_native.go": argsNative}
}

var reLocal = regexp.MustCompile(`\b(arr|sl|s|S)\b`)

// renameLocals gives the template's helper declarations (arr, sl, s, S) a per-scenario name.
func renameLocals(code string, n int) string {
	return reLocal.ReplaceAllString(code, fmt.Sprintf("${1}_%d", n))
}

// known-finding keys of the run-time error table
func classifyRte(s *rteScen, got gjs.Obs, want []string) []string {
	var keys []string
	split := func(ls []string) (ops, rest []string) {
		for _, l := range ls {
			if strings.HasPrefix(l, "o ") {
				ops = append(ops, l)
			} else {
				rest = append(rest, l)
			}
		}
		return
	}
	gOps, gRest := split(got.Lines)
	wOps, wRest := split(want)
	if got.End == "exit" && strings.Join(gRest, "|") == strings.Join(wRest, "|") {
		// the statement's outcome is right; only the operand calls differ
		inWant := map[string]int{}
		for i, o := range wOps {
			inWant[o] = i + 1
		}
		subset, ordered := true, true
		last := 0
		for _, o := range gOps {
			if inWant[o] == 0 {
				subset = false
			}
			if inWant[o] < last {
				ordered = false
			}
			last = inWant[o]
		}
		if subset && len(gOps) < len(wOps) && s.Trig {
			// the panic is raised before the operands on the right were evaluated
			keys = append(keys, "rte_raised_before_rhs_evaluated:"+s.Kind)
		}
		if subset && !ordered {
			if s.CK == "value" {
				keys = append(keys, "assign_rhs_calls_before_lhs_operand_calls:"+s.Kind)
			} else {
				keys = append(keys, "operand_calls_out_of_order:"+s.Kind)
			}
		}
		if len(keys) > 0 {
			return keys
		}
	}
	if !s.Trig {
		return nil
	}
	return []string{"rte:" + s.Kind}
}

func runRte(c *core.Ctx, pool *gjs.Pool) {
	r, err := tlcx.Run(c, tlcx.Opts{Module: "RtePanics", Cfg: "SPECIFICATION Spec\nINVARIANT TableOK Emit\nCHECK_DEADLOCK FALSE\n", Workers: 1, Timeout: 5 * time.Minute})
	if !tlcx.MustComplete(c, r, err, "RtePanics") {
		return
	}
	var scens []*rteScen
	err = tlcx.ReadNDJSON(filepath.Join(r.Dir, "rte.ndjson"), func(raw json.RawMessage) error {
		var inner string
		if err := json.Unmarshal(raw, &inner); err != nil {
			return err
		}
		s := &rteScen{raw: inner}
		if err := json.Unmarshal([]byte(inner), s); err != nil {
			return err
		}
		if _, ok := rteTemplates[s.Kind]; !ok {
			return fmt.Errorf("no Go template for run-time error kind %q", s.Kind)
		}
		scens = append(scens, s)
		return nil
	})
	if err != nil {
		c.Infra(err)
		return
	}
	sort.Slice(scens, func(i, j int) bool { return scens[i].raw < scens[j].raw })
	prog := gjs.Prog{Files: renderRte(scens)}
	dir, err := prog.Materialise(c.Scratch)
	if err != nil {
		c.Infra(err)
		return
	}
	out := filepath.Join(dir, "out.js")
	if err := pool.Build(dir, out, gjs.Opts{}); err != nil {
		if be, ok := err.(*gjs.BuildError); ok && be.Panic {
			c.Report(core.Case{Keys: []string{"compiler_panic"}, Summary: "compiler internal error: " + be.Error(), Files: prog.ReplayFiles("prog")})
		} else {
			c.Infra(fmt.Errorf("gopherjs build: %v", err))
		}
		return
	}
	bin := filepath.Join(dir, "native.bin")
	if r := gjs.NativeBuild(dir, bin); r.ExitCode != 0 || r.Err != nil {
		c.Infra(fmt.Errorf("reference toolchain rejected the run-time error table program: %s", r.Out))
		return
	}
	jobs := make([]gjs.Job, len(scens))
	for n := range scens {
		jobs[n] = gjs.Job{Args: []string{strconv.Itoa(n)}, MaxSteps: 2000}
	}
	obs, err := gjs.NodeMulti(out, jobs, 5*time.Minute)
	if err != nil {
		c.Infra(err)
		return
	}
	same := func(o gjs.Obs, want []string) bool {
		if o.End != "exit" || len(o.Lines) != len(want) {
			return false
		}
		for i := range want {
			if o.Lines[i] != want[i] {
				return false
			}
		}
		return true
	}
	for n, s := range scens {
		want := s.lines()
		c.Add("evaluations", 1)
		c.Distinct("rte:" + s.raw)
		nat := gjs.ClassifyNative(gjs.NativeRun(bin, 20*time.Second, nil, strconv.Itoa(n)))
		if !same(nat, want) {
			c.Add("spec_guard_discards", 1)
			fmt.Printf("note: reference toolchain disagrees with RtePanics.tla on %s trig=%v ck=%s: %v (%s)\n", s.Kind, s.Trig, s.CK, nat.Lines, nat.End)
			continue
		}
		c.Add("traces_validated_against_impl", 1)
		if same(obs[n], want) {
			continue
		}
		mini := renderRte([]*rteScen{s})
		files := map[string]string{"scenario.json": s.raw + "\n", "predicted.txt": strings.Join(want, "\n") + "\n", "observed.txt": obs[n].Raw + "\nend=" + obs[n].End + " " + obs[n].Msg + "\n"}
		for name, content := range mini {
			files["prog/"+name] = content
		}
		c.Report(core.Case{Keys: classifyRte(s, obs[n], want),
			Summary: fmt.Sprintf("run-time error operation %s (trigger=%v, operand calls=%s): predicted %v, compiled program printed %v and ended with %s %s", s.Kind, s.Trig, s.CK, want, obs[n].Lines, obs[n].End, obs[n].Msg), Files: files})
	}
}
