package c18

import (
	"bufio"
	"encoding/json"
	"errors"
	"fmt"
	"go/build"
	"io"
	"os"
	"os/exec"
	"path/filepath"
	"sort"
	"strings"

	gbuild "github.com/gopherjs/gopherjs/build"

	"verif/gjs"
)

// The selection code of /repo reads GOOS, GOARCH and GOPHERJS_GOROOT from the
// process environment and resolves module-mode import paths relative to the
// process working directory, so every Import call of this check runs in a
// child process (the harness binary re-executed as `vcheck __c18worker`) that
// was started in the module directory with the environment of the scenario.

const workerArg = "__c18worker"

// importJob asks for build.NewBuildContext(Suffix, tags).Import(Path, SrcDir, 0)
// once per tag set.
type importJob struct {
	Path    string     `json:"path"`
	SrcDir  string     `json:"srcdir"`
	Suffix  string     `json:"suffix"`
	TagSets [][]string `json:"tagsets"`
}

// importResult is what one Import call returned.
type importResult struct {
	Err        string   `json:"err,omitempty"`
	NoGo       bool     `json:"nogo,omitempty"`
	Goroot     bool     `json:"goroot,omitempty"`
	ImportPath string   `json:"importpath,omitempty"`
	Dir        string   `json:"dir,omitempty"`
	Go         []string `json:"go"`
	Test       []string `json:"test"`
	XTest      []string `json:"xtest"`
	Ignored    []string `json:"ignored"`
	Cgo        []string `json:"cgo"`
	JS         []string `json:"js"`
}

func maybeWorker() {
	if len(os.Args) < 2 || os.Args[1] != workerArg {
		return
	}
	gjs.Init()
	in := bufio.NewReaderSize(os.Stdin, 1<<20)
	out := bufio.NewWriter(os.Stdout)
	enc := json.NewEncoder(out)
	for {
		line, err := in.ReadBytes('\n')
		if len(line) > 1 {
			var j importJob
			var res []importResult
			if e := json.Unmarshal(line, &j); e != nil {
				res = []importResult{{Err: "bad job: " + e.Error()}}
			} else {
				for _, tags := range j.TagSets {
					res = append(res, doImport(j, tags))
				}
			}
			enc.Encode(res)
			out.Flush()
		}
		if err != nil {
			os.Exit(0)
		}
	}
}

func doImport(j importJob, tags []string) (r importResult) {
	defer func() {
		if p := recover(); p != nil {
			r = importResult{Err: fmt.Sprintf("panic in Import: %v", p)}
		}
	}()
	// the public entry point of the selection code under test
	pkg, err := gbuild.NewBuildContext(j.Suffix, append([]string{}, tags...)).Import(j.Path, j.SrcDir, 0)
	if err != nil {
		var ng *build.NoGoError
		if errors.As(err, &ng) {
			return importResult{NoGo: true, Err: err.Error()}
		}
		return importResult{Err: err.Error()}
	}
	r = importResult{Goroot: pkg.Goroot, ImportPath: pkg.ImportPath, Dir: pkg.Dir,
		Go: pkg.GoFiles, Test: pkg.TestGoFiles, XTest: pkg.XTestGoFiles, Ignored: pkg.IgnoredGoFiles, Cgo: pkg.CgoFiles}
	for _, f := range pkg.JSFiles {
		r.JS = append(r.JS, filepath.Base(f.Path))
	}
	sort.Strings(r.JS)
	return r
}

// wproc is one worker process.
type wproc struct {
	cmd *exec.Cmd
	in  io.WriteCloser
	out *bufio.Reader
}

// wpool is a set of worker processes that share a working directory and an
// environment.
type wpool struct {
	name string
	dir  string
	env  []string
	free chan *wproc
	n    int
}

// newWPool prepares n lazily started workers. env entries override the
// inherited environment; GOOS, GOARCH and GOPHERJS_GOROOT are never inherited.
func newWPool(name, dir string, n int, env ...string) *wpool {
	p := &wpool{name: name, dir: dir, n: n, free: make(chan *wproc, n)}
	for _, kv := range os.Environ() {
		k := kv
		if i := strings.IndexByte(kv, '='); i >= 0 {
			k = kv[:i]
		}
		switch k {
		case "GOOS", "GOARCH", "GOPHERJS_GOROOT":
			continue
		}
		p.env = append(p.env, kv)
	}
	p.env = append(p.env, env...)
	for i := 0; i < n; i++ {
		p.free <- nil
	}
	return p
}

func (p *wpool) start() (*wproc, error) {
	exe, err := os.Executable()
	if err != nil {
		return nil, err
	}
	cmd := exec.Command(exe, workerArg)
	cmd.Dir = p.dir
	cmd.Env = p.env
	cmd.Stderr = io.Discard
	in, err := cmd.StdinPipe()
	if err != nil {
		return nil, err
	}
	out, err := cmd.StdoutPipe()
	if err != nil {
		return nil, err
	}
	if err := cmd.Start(); err != nil {
		return nil, err
	}
	return &wproc{cmd: cmd, in: in, out: bufio.NewReaderSize(out, 1<<20)}, nil
}

// call runs one job; an error is an infrastructure failure.
func (p *wpool) call(j importJob) ([]importResult, error) {
	w := <-p.free
	var err error
	if w == nil {
		if w, err = p.start(); err != nil {
			p.free <- nil
			return nil, fmt.Errorf("start %s worker: %w", p.name, err)
		}
	}
	b, _ := json.Marshal(j)
	if _, err = w.in.Write(append(b, '\n')); err == nil {
		var line []byte
		if line, err = w.out.ReadBytes('\n'); err == nil {
			var res []importResult
			if err = json.Unmarshal(line, &res); err == nil {
				p.free <- w
				if len(res) != len(j.TagSets) {
					return nil, fmt.Errorf("%s worker: %d results for %d tag sets (%v)", p.name, len(res), len(j.TagSets), res)
				}
				return res, nil
			}
		}
	}
	w.cmd.Process.Kill()
	w.cmd.Wait()
	p.free <- nil
	return nil, fmt.Errorf("%s worker died: %v", p.name, err)
}

func (p *wpool) close() {
	for i := 0; i < p.n; i++ {
		if w := <-p.free; w != nil {
			w.in.Close()
			w.cmd.Wait()
		}
	}
}
