package c18

import (
	"fmt"
	"math/rand"
	"path/filepath"
	"sort"
	"strings"
	"sync/atomic"
	"time"

	"verif/gjs"
)

// endToEnd compiles programs that import a sample of the scenario directories
// (user packages, default environment) under several -tags sets and runs them:
// every Go file prints its name from an init function and every .inc.js file
// from its top level, so the printed set is the set of files that really took
// part in the build.  It must equal the predicted GoFiles + JSFiles.
func (s *state) endToEnd(pool *gjs.Pool, cand []*dirSpec, rng *rand.Rand) {
	c := s.c
	var usable []*dirSpec
	for _, d := range cand {
		ok := true
		for i := range s.usets { // importable as a dependency under every tag set: some non-test Go file is selected
			has := false
			for _, f := range d.files {
				if f.list(0, i) == "GoFiles" {
					has = true
					break
				}
			}
			if !has {
				ok = false
				break
			}
		}
		if ok {
			usable = append(usable, d)
		}
	}
	if len(usable) == 0 {
		s.infra(fmt.Errorf("end to end: no directory is importable under every tag set"))
		return
	}
	nprog := c.Pick(2, 6)
	perProg := 5
	ntags := c.Pick(4, len(s.usets))
	type unit struct {
		dirs []*dirSpec
		tags []int
	}
	var units []unit
	for p := 0; p < nprog; p++ {
		perm := rng.Perm(len(usable))
		var ds []*dirSpec
		for _, k := range perm[:min(perProg, len(perm))] {
			ds = append(ds, usable[k])
		}
		tp := rng.Perm(len(s.usets))[:ntags]
		sort.Ints(tp)
		units = append(units, unit{ds, tp})
	}
	// materialise every program once, then build and run every (program, tag set) pair
	progDirs := make([]string, len(units))
	for u, un := range units {
		files := map[string]string{}
		var main strings.Builder
		main.WriteString("package main\n\nimport (\n")
		for _, d := range un.dirs {
			fmt.Fprintf(&main, "\t_ \"vp/%s\"\n", d.name)
			for _, f := range d.files {
				files[d.name+"/"+f.Name] = f.content(d.name)
			}
		}
		main.WriteString(")\n\nfunc main() { println(\"END\") }\n")
		files["main.go"] = main.String()
		dir, err := gjs.Prog{Files: files}.Materialise(c.Scratch)
		if err != nil {
			s.infra(err)
			return
		}
		progDirs[u] = dir
	}
	type pair struct{ u, i int }
	var pairs []pair
	for u, un := range units {
		for _, i := range un.tags {
			pairs = append(pairs, pair{u, i})
		}
	}
	var nbuilds int64
	parMap(len(pairs), c.Workers/4, func(k int) {
		un, i, dir := units[pairs[k].u], pairs[k].i, progDirs[pairs[k].u]
		{
			out := filepath.Join(dir, fmt.Sprintf("out%d.js", i))
			if err := pool.Build(dir, out, gjs.Opts{Tags: s.usets[i]}); err != nil {
				if _, ok := err.(*gjs.BuildError); ok && s.mismatches() > 0 {
					return // explained by a selection difference that is reported anyway
				}
				s.infra(fmt.Errorf("end to end: build with -tags %v failed: %v", s.usets[i], err))
				return
			}
			atomic.AddInt64(&nbuilds, 1)
			o := gjs.ClassifyNode(gjs.Node(out, 2*time.Minute, "", nil))
			if o.End != "exit" || len(o.Lines) == 0 || o.Lines[len(o.Lines)-1] != "END" {
				s.infra(fmt.Errorf("end to end: program did not run to its end: end=%s msg=%s", o.End, o.Msg))
				return
			}
			ran := map[string]bool{}
			for _, l := range o.Lines {
				if strings.HasPrefix(l, "R ") {
					ran[strings.TrimPrefix(l, "R ")] = true
				}
			}
			for _, d := range un.dirs {
				for _, f := range d.files {
					l := f.list(0, i)
					want := l == "GoFiles" || l == "JSFiles"
					got := ran[d.name+"/"+f.Name]
					if f.X.Bad[0]>>uint(i)&1 == 1 {
						atomic.AddInt64(&s.disc, 1)
						continue
					}
					atomic.AddInt64(&s.evals, 1)
					if want == got {
						continue
					}
					if !f.incjs() {
						if gl, err := s.g.listByGuard(f, s.g.lists[0][i]); err != nil || gl != l {
							atomic.AddInt64(&s.disc, 1)
							continue
						}
					}
					what := "ran_but_not_selected"
					obsList := "GoFiles"
					if !got {
						what = "selected_but_did_not_run"
						obsList = "IgnoredGoFiles"
					}
					cp := s.culprit(f, 0, i, obsList)
					f, d := f, d
					s.recordFlip("e2e:"+what, cp, fmt.Sprintf("compiled program, -tags %q: file %s/%s with constraint %q: specification says %s, at run time the file %s (differing tag: %s)",
						strings.Join(s.usets[i], ","), d.name, f.Name, f.X.Text, l, map[bool]string{true: "registered itself", false: "did not register itself"}[got], cp),
						func() map[string]string {
							mini := gjs.Prog{Files: map[string]string{
								"main.go":                "package main\n\nimport _ \"vp/" + d.name + "\"\n\nfunc main() { println(\"END\") }\n",
								d.name + "/" + f.Name:    f.content(d.name),
								d.name + "/zz_anchor.go": render(d.name, "zz_anchor.go", "", false),
							}}
							out := mini.ReplayFiles("prog")
							out["tags.txt"] = strings.Join(s.usets[i], ",") + "\n"
							out["expected.txt"] = fmt.Sprintf("%s/%s registers itself: %v\n", d.name, f.Name, want)
							out["observed.txt"] = fmt.Sprintf("%s/%s registers itself: %v\n", d.name, f.Name, got)
							return out
						})
				}
			}
		}
	})
	c.Set("programs", int(nbuilds))
	c.Set("e2e_directories_per_program", perProg)
}
