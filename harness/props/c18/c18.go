// Package c18 decides C18 (source files are selected by the documented build
// constraints).
//
// spec/Constraints.tla is the reference: //go:build expression trees with
// Eval, the documented tag environment of user and standard-library packages,
// Go's file-name rule, "cgo files are never used", ".inc.js files are always
// included".  spec/ConstraintsScen.tla makes TLC enumerate expressions of depth
// <= 2 x file-name forms x environments x user tag sets together with the
// predicted list (GoFiles, TestGoFiles, IgnoredGoFiles, JSFiles, none) of every
// file, and checks properties of the reference itself.  This package writes
// the files into package directories of a temporary module, loads every
// directory with the real build.NewBuildContext(..).Import of /repo (in child
// processes started in the module directory with the environment of the
// scenario; standard-library selection is reached through GOPHERJS_GOROOT),
// and compares the lists.  A sample of directories is also compiled and run:
// every selected file registers itself in an init function, and the run-time
// set must equal the predicted set.  spec/ConstraintsReal.tla evaluates the
// same definitions on real standard-library directories.
//
// Specification guard: go/build/constraint evaluates every expression under
// the specification's tag set; the standard library's go/build.MatchFile,
// given the specification's tag set as plain build tags, decides name rule and
// expression together.  Where a guard disagrees with the specification the
// evaluation is discarded and counted.
package c18

import (
	"encoding/json"
	"fmt"
	"go/build"
	"go/build/constraint"
	"io"
	"math/rand"
	"os"
	"path/filepath"
	"sort"
	"strconv"
	"strings"
	"sync"
	"sync/atomic"
	"time"

	"verif/core"
	"verif/gjs"
	"verif/reg"
	"verif/tlcx"
)

func init() {
	maybeWorker()
	reg.Register("C18", "model_checking", Run)
}

// envSpec is one tag environment of the specification (Constraints!PkgTags).
type envSpec struct {
	Std    bool   `json:"std"`
	GOOS   string `json:"goos"`
	GOARCH string `json:"goarch"`
}

func (e envSpec) String() string {
	k := "user package"
	if e.Std {
		k = "standard-library package"
	}
	return fmt.Sprintf("%s, process environment GOOS=%s GOARCH=%s", k, e.GOOS, e.GOARCH)
}

func (e envSpec) key() string {
	k := "user"
	if e.Std {
		k = "std"
	}
	if e.GOOS != "js" || e.GOARCH != "ecmascript" {
		k += "_env_" + e.GOOS + "_" + e.GOARCH
	}
	return k
}

var envs = []envSpec{
	{false, "js", "ecmascript"}, // the default
	{true, "js", "ecmascript"},
	{false, "linux", "amd64"}, // GOOS/GOARCH set in the environment (documented transition behaviour of DefaultEnv)
	{true, "linux", "amd64"},
}

var vocabulary = []string{"js", "ecmascript", "wasm", "linux", "amd64", "gc", "gccgo", "cgo", "gopherjs", "netgo", "purego",
	"math_big_pure_go", "go1.1", "go1.20", "go1.21", "go1.23", "ignore", "u1", "u2"}

var userBase = []string{"u1", "u2", "wasm", "go1.21"}

func userSets() [][]string {
	var out [][]string
	for m := 0; m < 1<<len(userBase); m++ {
		s := []string{}
		for i, t := range userBase {
			if m>>i&1 == 1 {
				s = append(s, t)
			}
		}
		out = append(out, s)
	}
	// user tag sets that repeat tags the tool chain sets itself (a list that already
	// names a default tag must not change what the other default tags do)
	out = append(out, []string{"gopherjs"}, []string{"u1", "gopherjs"}, []string{"netgo"}, []string{"purego", "math_big_pure_go"},
		[]string{"gopherjs", "netgo", "purego", "math_big_pure_go"}, []string{"js"}, []string{"gc", "ecmascript"})
	return out
}

// exprSpec is one enumerated expression.
type exprSpec struct {
	Text    string // "" = no //go:build line
	EvMasks []int  // per environment: bit i = Eval under user tag set i
	Bad     []int  // per environment: bit i = go/build/constraint disagrees with the specification (discard)
	Invalid bool   // go/build/constraint cannot parse the text
}

// fileSpec is one file of the scenario with its predictions.
type fileSpec struct {
	Name  string
	X     *exprSpec
	On    string // list when selected
	Off   string // list when not selected
	Masks []int  // per environment: bit i = selected under user tag set i
	Cgo   bool
}

func (f *fileSpec) incjs() bool  { return strings.HasSuffix(f.Name, ".inc.js") }
func (f *fileSpec) hidden() bool { return f.Name[0] == '_' || f.Name[0] == '.' }
func (f *fileSpec) selected(e, i int) bool {
	return f.Masks[e]>>uint(i)&1 == 1
}
func (f *fileSpec) list(e, i int) string {
	if f.selected(e, i) {
		return f.On
	}
	return f.Off
}

func marker(name string) string {
	var b strings.Builder
	b.WriteString("M_")
	for _, r := range name {
		switch {
		case r >= 'a' && r <= 'z', r >= 'A' && r <= 'Z', r >= '0' && r <= '9', r == '_':
			b.WriteRune(r)
		case r == '.':
			b.WriteString("_dot_")
		default:
			fmt.Fprintf(&b, "_x%x_", r)
		}
	}
	return b.String()
}

// content renders the file: a tiny file of package pkg with one marker
// function; it registers itself at run time by printing its name.
func (f *fileSpec) content(pkg string) string {
	return render(pkg, f.Name, f.X.Text, f.Cgo)
}

func render(pkg, name, text string, cgo bool) string {
	var b strings.Builder
	if strings.HasSuffix(name, ".inc.js") {
		if text != "" {
			b.WriteString("//go:build " + text + "\n")
		}
		fmt.Fprintf(&b, "console.log(\"R %s/%s\");\n", pkg, name)
		return b.String()
	}
	if text != "" {
		b.WriteString("//go:build " + text + "\n\n")
	}
	b.WriteString("package " + pkg + "\n\n")
	if cgo {
		b.WriteString("import \"C\"\n\n")
	}
	fmt.Fprintf(&b, "func init() { println(\"R %s/%s\") }\n\nfunc %s() {}\n", pkg, name, marker(name))
	return b.String()
}

type dirSpec struct {
	name  string
	files []*fileSpec
}

// expectation of one directory under (env, user set)
func (d *dirSpec) expect(e, i int) (lists map[string]string, loadable bool) {
	lists = make(map[string]string, len(d.files))
	for _, f := range d.files {
		l := f.list(e, i)
		lists[f.Name] = l
		if l == "GoFiles" || l == "TestGoFiles" {
			loadable = true
		}
	}
	return
}

func observed(r importResult) map[string]string {
	m := map[string]string{}
	put := func(l string, names []string) {
		for _, n := range names {
			if old, ok := m[n]; ok {
				m[n] = old + "+" + l
			} else {
				m[n] = l
			}
		}
	}
	put("GoFiles", r.Go)
	put("TestGoFiles", r.Test)
	put("TestGoFiles", r.XTest) // external test files: the specification does not distinguish them
	put("IgnoredGoFiles", r.Ignored)
	put("CgoFiles", r.Cgo)
	put("JSFiles", r.JS)
	return m
}

// ---------------------------------------------------------------------------
// specification guard

type guard struct {
	tags  [][]map[string]bool // [env][userset] -> the specification's tag set
	lists [][][]string        // the same as sorted lists (BuildTags of the guard context)
	nC    int64               // go/build/constraint evaluations
	nM    int64               // go/build.MatchFile evaluations
}

// checkExpr evaluates the expression with go/build/constraint under every tag
// set of the specification and marks the disagreements.
func (g *guard) checkExpr(x *exprSpec) (bad int) {
	x.Bad = make([]int, len(g.tags))
	if x.Text == "" {
		for e := range g.tags {
			if x.EvMasks[e] != 1<<uint(len(g.tags[e]))-1 {
				x.Bad[e] = 1<<uint(len(g.tags[e])) - 1
				bad += len(g.tags[e])
			}
		}
		return
	}
	expr, err := constraint.Parse("//go:build " + x.Text)
	x.Invalid = err != nil
	for e := range g.tags {
		for i := range g.tags[e] {
			ok := false
			if err == nil {
				tags := g.tags[e][i]
				ok = expr.Eval(func(tag string) bool { return tags[tag] }) == (x.EvMasks[e]>>uint(i)&1 == 1)
			}
			if !ok {
				x.Bad[e] |= 1 << uint(i)
				bad++
			}
		}
	}
	atomic.AddInt64(&g.nC, int64(len(g.tags)*len(g.tags[0])))
	return
}

// matchFile asks the standard library whether the file (name and content)
// matches a build context whose satisfied tags are exactly the given list.
func (g *guard) matchFile(name, content string, tags []string) (bool, error) {
	ctxt := build.Context{BuildTags: tags, CgoEnabled: false,
		OpenFile: func(string) (io.ReadCloser, error) { return io.NopCloser(strings.NewReader(content)), nil }}
	atomic.AddInt64(&g.nM, 1)
	return ctxt.MatchFile("/c18guard", name)
}

// listByGuard is the list the guard assigns (Go files only).
func (g *guard) listByGuard(f *fileSpec, tags []string) (string, error) {
	if f.hidden() {
		return "none", nil
	}
	m, err := g.matchFile(f.Name, f.content("p"), tags)
	if err != nil {
		return "", err
	}
	switch {
	case !m || f.Cgo:
		return "IgnoredGoFiles", nil
	case strings.HasSuffix(f.Name, "_test.go"):
		return "TestGoFiles", nil
	}
	return "GoFiles", nil
}

// nameFree reports whether the file name constrains nothing according to the
// standard library (an empty tag set matches a file of that name without constraint).
func nameFree(name string) bool {
	ctxt := build.Context{OpenFile: func(string) (io.ReadCloser, error) { return io.NopCloser(strings.NewReader("package p\n")), nil }}
	m, err := ctxt.MatchFile("/c18guard", name)
	return err == nil && m
}

// ---------------------------------------------------------------------------

type mismatch struct {
	key     string
	prefix  string   // context and kind of the difference
	hits    []string // single-tag flips (+tag / -tag) each of which explains the difference; nil: not of that kind
	summary string
	files   map[string]string
	count   int
}

type state struct {
	c      *core.Ctx
	g      *guard
	usets  [][]string
	mu     sync.Mutex
	mism   map[string]*mismatch
	evals  int64
	disc   int64
	calls  int64
	failed int32
	fullGd int // run the MatchFile guard on 1 of fullGd evaluations
	st     *setup
}

func (s *state) infra(err error) {
	atomic.StoreInt32(&s.failed, 1)
	s.c.Infra(err)
}

func (s *state) record(key, summary string, files func() map[string]string) {
	s.mu.Lock()
	defer s.mu.Unlock()
	m := s.mism[key]
	if m == nil {
		m = &mismatch{key: key, summary: summary, files: files()}
		s.mism[key] = m
	}
	m.count++
}

// recordFlip records a difference that flipping any one of the tags in hits
// (a comma-separated list of +tag / -tag) would explain.
func (s *state) recordFlip(prefix, hits, summary string, files func() map[string]string) {
	key := prefix + ":" + hits
	s.record(key, summary, files)
	if hits == "unexplained" || hits == "incjs" {
		return
	}
	s.mu.Lock()
	m := s.mism[key]
	if m.hits == nil {
		m.prefix = prefix
		for _, h := range strings.Split(hits, ",") {
			if h != "cgofile" {
				m.hits = append(m.hits, h)
			}
		}
	}
	s.mu.Unlock()
}

// report turns the recorded differences into cases. Differences that a single
// tag explains are merged greedily: the tag that explains most evaluations
// first (one case per tag, classifier key flip:<+|-><tag>).
func (s *state) report() {
	c := s.c
	var flips, others []*mismatch
	for _, m := range s.mism {
		if len(m.hits) > 0 {
			flips = append(flips, m)
		} else {
			others = append(others, m)
		}
	}
	sort.Slice(others, func(i, j int) bool { return others[i].key < others[j].key })
	for _, m := range others {
		c.Report(core.Case{Keys: []string{m.key}, Summary: fmt.Sprintf("%s [%d evaluations in group %s]", m.summary, m.count, m.key), Files: m.files})
	}
	for len(flips) > 0 {
		tally := map[string]int{}
		for _, m := range flips {
			for _, h := range m.hits {
				tally[h] += m.count
			}
		}
		best := ""
		for h, n := range tally {
			if best == "" || n > tally[best] || (n == tally[best] && h < best) {
				best = h
			}
		}
		var rest []*mismatch
		var rep *mismatch
		total := 0
		ctxs := map[string]int{}
		for _, m := range flips {
			has := false
			for _, h := range m.hits {
				if h == best {
					has = true
				}
			}
			if !has {
				rest = append(rest, m)
				continue
			}
			total += m.count
			ctxs[m.prefix] += m.count
			if rep == nil || len(m.hits) < len(rep.hits) || (len(m.hits) == len(rep.hits) && m.key < rep.key) {
				rep = m
			}
		}
		flips = rest
		var cl []string
		for k, n := range ctxs {
			cl = append(cl, fmt.Sprintf("%s x%d", k, n))
		}
		sort.Strings(cl)
		state := "satisfied although the specification says it is not"
		if best[0] == '-' {
			state = "not satisfied although the specification says it is"
		}
		c.Report(core.Case{Keys: []string{"flip:" + best},
			Summary: fmt.Sprintf("tag %q is %s: %s [%d evaluations; contexts: %s]", best[1:], state, rep.summary, total, strings.Join(cl, ", ")), Files: rep.files})
	}
}

func (s *state) mismatches() int {
	s.mu.Lock()
	defer s.mu.Unlock()
	return len(s.mism)
}

func exprTags(text string) []string {
	if text == "" {
		return nil
	}
	x, err := constraint.Parse("//go:build " + text)
	if err != nil {
		return nil
	}
	set := map[string]bool{}
	var walk func(constraint.Expr)
	walk = func(x constraint.Expr) {
		switch x := x.(type) {
		case *constraint.TagExpr:
			set[x.Tag] = true
		case *constraint.NotExpr:
			walk(x.X)
		case *constraint.AndExpr:
			walk(x.X)
			walk(x.Y)
		case *constraint.OrExpr:
			walk(x.X)
			walk(x.Y)
		}
	}
	walk(x)
	var out []string
	for t := range set {
		out = append(out, t)
	}
	return out
}

// culprit finds the tags whose membership in the tag set, if flipped, makes the
// standard library assign the observed list (diagnostic only: it names the group).
func (s *state) culprit(f *fileSpec, e, i int, obs string) string {
	if f.incjs() {
		return "incjs"
	}
	cand := map[string]bool{}
	for _, t := range exprTags(f.X.Text) {
		cand[t] = true
	}
	base := strings.TrimSuffix(f.Name, ".go")
	for _, p := range strings.Split(base, "_")[1:] {
		if p != "" && p != "test" {
			cand[p] = true
		}
	}
	var names []string
	for t := range cand {
		names = append(names, t)
	}
	sort.Strings(names)
	var hit []string
	for _, t := range names {
		var flipped []string
		had := false
		for _, u := range s.g.lists[e][i] {
			if u == t {
				had = true
				continue
			}
			flipped = append(flipped, u)
		}
		if !had {
			flipped = append(flipped, t)
		}
		if l, err := s.g.listByGuard(f, flipped); err == nil && l == obs {
			if had {
				hit = append(hit, "-"+t)
			} else {
				hit = append(hit, "+"+t)
			}
		}
	}
	if f.Cgo {
		hit = append(hit, "cgofile")
	}
	if len(hit) == 0 {
		return "unexplained"
	}
	return strings.Join(hit, ",")
}

// modeOf names the way a directory was loaded (for replay).
func modeOf(how string) string {
	switch {
	case strings.HasPrefix(how, "Import(\".\", GOROOT"):
		return "stdrel"
	case strings.HasPrefix(how, "Import(\"vp/"):
		return "bypath"
	case strings.HasPrefix(how, "Import(\"vstd/"):
		return "std"
	}
	return "local"
}

// scenarioFiles is the replay form of (directory, environment, tags).
func scenarioFiles(env envSpec, tags []string, how string, dir string, files map[string]string, expect map[string]string, extra map[string]any) map[string]string {
	m := map[string]any{"env": env, "tags": tags, "how": how, "mode": modeOf(how), "dir": dir, "files": files, "expect": expect}
	for k, v := range extra {
		m[k] = v
	}
	b, _ := json.MarshalIndent(m, "", " ")
	out := map[string]string{"scenario.json": string(b) + "\n"}
	for n, c := range files {
		out[filepath.Join("pkg", n)] = c
	}
	return out
}

// compare checks one Import result against the prediction.
// class != "" puts every difference into the group of that name (a scenario
// class with its own classifier key).
func (s *state) compare(d *dirSpec, e, i int, r importResult, how string, class string) {
	exp, loadable := d.expect(e, i)
	env := envs[e]
	tags := s.usets[i]
	ctxDesc := fmt.Sprintf("%s, -tags %q, %s", env, strings.Join(tags, ","), how)
	whole := func(extra map[string]any) map[string]string {
		fl := map[string]string{}
		for _, f := range d.files {
			fl[f.Name] = f.content(d.name)
		}
		return scenarioFiles(env, tags, how, d.name, fl, exp, extra)
	}
	if r.Err != "" {
		if r.NoGo && !loadable {
			atomic.AddInt64(&s.evals, int64(len(d.files)))
			return
		}
		// the guard must agree about loadability
		gl := false
		for _, f := range d.files {
			if !f.incjs() {
				if l, err := s.g.listByGuard(f, s.g.lists[e][i]); err == nil && (l == "GoFiles" || l == "TestGoFiles") {
					gl = true
					break
				}
			}
		}
		if gl != loadable {
			atomic.AddInt64(&s.disc, int64(len(d.files)))
			return
		}
		s.record(env.key()+":import_error", fmt.Sprintf("%s: Import failed although the specification predicts loadable=%v: %s", ctxDesc, loadable, r.Err),
			func() map[string]string { return whole(map[string]any{"error": r.Err}) })
		return
	}
	if !loadable {
		s.record(env.key()+":loaded_without_go_files", fmt.Sprintf("%s: Import succeeded (GoFiles=%v TestGoFiles=%v) although no Go file of the directory is selected", ctxDesc, r.Go, r.Test),
			func() map[string]string { return whole(map[string]any{"observed": observed(r)}) })
		return
	}
	if r.Goroot != env.Std {
		s.infra(fmt.Errorf("%s: package %s reported Goroot=%v (the scenario set-up did not take effect)", ctxDesc, d.name, r.Goroot))
		return
	}
	if corrupt == "obs" && e == 0 && i == 0 && d.name == "p00000" && len(r.Go) > 0 {
		r.Go = r.Go[1:] // sensitivity self-test: pretend Import lost a file
	}
	obs := observed(r)
	for _, f := range d.files {
		want := exp[f.Name]
		got, ok := obs[f.Name]
		if !ok {
			got = "none"
		}
		delete(obs, f.Name)
		// specification guard (1): go/build/constraint on the expression (done when the scenario was read)
		if f.X.Bad[e]>>uint(i)&1 == 1 {
			atomic.AddInt64(&s.disc, 1)
			continue
		}
		// specification guard (2): go/build.MatchFile under the specification's tag set
		full := want != got || (s.fullGd > 0 && (hash(f.Name)+e*16+i)%s.fullGd == 0)
		if full && !f.incjs() {
			l, err := s.g.listByGuard(f, s.g.lists[e][i])
			if err != nil || l != want {
				atomic.AddInt64(&s.disc, 1)
				continue
			}
		}
		atomic.AddInt64(&s.evals, 1)
		if want == got {
			continue
		}
		cp := s.culprit(f, e, i, got)
		f := f
		rec := s.recordFlip
		if class != "" {
			rec = func(_, _ string, summary string, files func() map[string]string) { s.record(class, summary, files) }
		}
		rec(fmt.Sprintf("%s:%s_as_%s", env.key(), want, got), cp, fmt.Sprintf("%s: file %s with constraint %q must be in %s, Import reported %s (differing tag: %s)", ctxDesc, f.Name, f.X.Text, want, got, cp),
			func() map[string]string {
				fl := map[string]string{f.Name: f.content(d.name), "zz_anchor.go": render(d.name, "zz_anchor.go", "", false)}
				ex := map[string]string{f.Name: want, "zz_anchor.go": "GoFiles"}
				out := scenarioFiles(env, tags, how, d.name, fl, ex, map[string]any{"file": f.Name, "constraint": f.X.Text, "spec_tags": s.g.lists[e][i], "observed": got})
				out["expected.txt"] = f.Name + ": " + want + "\n"
				out["observed.txt"] = f.Name + ": " + got + "\n"
				return out
			})
	}
	for n, l := range obs {
		n, l := n, l
		s.record(env.key()+":unknown_file_reported", fmt.Sprintf("%s: Import reported %s in %s, which is not a file of the scenario", ctxDesc, n, l),
			func() map[string]string { return whole(map[string]any{"observed": observed(r)}) })
	}
}

func hash(s string) int {
	h := 0
	for i := 0; i < len(s); i++ {
		h = (h*131 + int(s[i])) & 0xFFFFFF
	}
	return h
}

// setup creates the module, the GOROOT-shaped tree whose src/vstd is the
// module directory, and the worker pools (one per environment of `envs`).
type setup struct {
	modDir, fakeRoot string
	pools            []*wpool
	tmp              string // memory-backed scratch directory, removed by close
}

func newSetup(c *core.Ctx, nw int) (*setup, error) {
	// Millions of tiny files are created, read dozens of times and deleted: a
	// memory-backed directory (own mktemp-style directory, removed at the end)
	// keeps that off the disk when the machine has one.
	base := c.Scratch
	tmp := ""
	if os.Getenv("VERIF_KEEP") == "" {
		if d, err := os.MkdirTemp("/dev/shm", "verif-C18-"); err == nil {
			base, tmp = d, d
		}
	}
	st := &setup{modDir: filepath.Join(base, "mod"), fakeRoot: filepath.Join(base, "goroot"), tmp: tmp}
	if err := gjs.WriteModule(st.modDir, "vp"); err != nil {
		return nil, err
	}
	if err := os.MkdirAll(filepath.Join(st.fakeRoot, "src"), 0o755); err != nil {
		return nil, err
	}
	if err := os.Symlink(st.modDir, filepath.Join(st.fakeRoot, "src", "vstd")); err != nil {
		return nil, err
	}
	for _, e := range envs {
		var env []string
		if e.Std {
			env = append(env, "GOPHERJS_GOROOT="+st.fakeRoot)
		}
		if e.GOOS != "js" || e.GOARCH != "ecmascript" {
			env = append(env, "GOOS="+e.GOOS, "GOARCH="+e.GOARCH)
		}
		st.pools = append(st.pools, newWPool(e.key(), st.modDir, nw, env...))
	}
	return st, nil
}

func (st *setup) close() {
	for _, p := range st.pools {
		p.close()
	}
	if st.tmp != "" {
		os.RemoveAll(st.tmp)
	}
}

func (st *setup) job(e int, dir string, tagsets [][]string) (importJob, string) {
	if envs[e].Std {
		return importJob{Path: "vstd/" + dir, SrcDir: "", TagSets: tagsets},
			"Import(\"vstd/" + dir + "\", \"\", 0) with GOPHERJS_GOROOT pointing at a tree that contains src/vstd"
	}
	return importJob{Path: ".", SrcDir: filepath.Join(st.modDir, dir), TagSets: tagsets}, "Import(\".\", dir, 0)"
}

// Run is the C18 check.
func Run(c *core.Ctx, pool *gjs.Pool) {
	if rp := os.Getenv("VERIF_REPLAY"); rp != "" {
		replay(c, rp)
		return
	}
	c.Assumef("the known GOOS/GOARCH lists of the go command (go/build of the harness toolchain) are the reference for file-name suffixes; 'ecmascript' is not a known architecture, so a suffix _ecmascript constrains nothing")
	c.Assumef("&& and || are enumerated over unordered operand pairs; TLC checks on every enumerated expression that operand order, De Morgan and double negation do not change Eval, and VERIF_SEED decides the order in which operands are written")
	c.Assumef(".inc.js inclusion has no independent reference implementation: the rule is the one documented on build.Import (all *.inc.js files except those starting with _ or .)")
	c.Assumef("GOOS/GOARCH set in the process environment replace js/ecmascript for user packages (documented on build.DefaultEnv); standard-library packages stay js/wasm")
	usets := userSets()
	rng := rand.New(rand.NewSource(c.Seed))
	mod := c.Pick(64, 1) // depth-2 binary expressions: 1 of mod (seeded) / all
	xmod := c.Pick(4, 1) // depth<=1 expressions crossed with the further file-name forms: 1 of xmod / all
	// core file-name forms per depth-2 binary expression: the plain name and a
	// rotating window of two of the eight suffix forms. VERIF_C18_NFORMS=9 runs
	// the complete cross product (measured: 1.31M files, 53.7M evaluations).
	nforms := 3
	if v, err := strconv.Atoi(os.Getenv("VERIF_C18_NFORMS")); err == nil && v >= 1 && v <= 9 {
		nforms = v
	}
	params := map[string]any{
		"voc": vocabulary, "usersets": usets, "envs": envs,
		"mod": mod, "salt": int(c.Seed%1000) + 1, "flip": c.Seed%2 == 0, "min": (c.Seed/2)%2 == 1, "out": "scen",
		"xmod": xmod, "nforms": nforms,
	}
	pj, _ := json.Marshal(params)
	nw := c.Workers / 4
	if nw < 1 {
		nw = 1
	}
	if nw > 3 {
		nw = 3
	}
	st, err := newSetup(c, nw)
	if err != nil {
		c.Infra(err)
		return
	}
	defer st.close()
	g := &guard{}
	s := &state{c: c, g: g, usets: usets, mism: map[string]*mismatch{}, fullGd: c.Pick(1, 16), st: st}
	// the real standard-library directories are read and predicted (second TLC run) meanwhile
	realReady := make(chan *realScen, 1)
	go func() { realReady <- s.realPrepare() }()
	defer func() { <-realReady }()
	cfg := "SPECIFICATION Spec\nINVARIANT Emit\nINVARIANT SelectedAgrees\nINVARIANT Algebra\nINVARIANT Independence\nINVARIANT Clauses\nCHECK_DEADLOCK FALSE\n"
	tw := 8
	if c.Workers < tw {
		tw = c.Workers
	}
	r, err := tlcx.Run(c, tlcx.Opts{Module: "ConstraintsScen", Cfg: cfg, Workers: tw, Timeout: 60 * time.Minute, HeapMB: 6144,
		Files: map[string]string{"c18_params.json": string(pj)}})
	if !tlcx.MustComplete(c, r, err, "ConstraintsScen") {
		return
	}
	c.Phase("tlc_scen")
	c.Set("checker_cmd", "tlc ConstraintsScen (INVARIANT Emit SelectedAgrees Algebra Independence Clauses; ASSUME environment facts and small-universe algebra); tlc ConstraintsReal (INVARIANT Emit EnvBlind)")

	// environment table
	{
		var table [][][]string
		n := 0
		err := tlcx.ReadNDJSON(filepath.Join(r.Dir, "scen.env.ndjson"), func(raw json.RawMessage) error {
			var inner string
			if err := json.Unmarshal(raw, &inner); err != nil {
				return err
			}
			n++
			return json.Unmarshal([]byte(inner), &table)
		})
		if err != nil || n != 1 || len(table) != len(envs) {
			c.Infra(fmt.Errorf("environment table of ConstraintsScen unreadable: %v (lines=%d envs=%d)", err, n, len(table)))
			return
		}
		for e := range table {
			if len(table[e]) != len(usets) {
				c.Infra(fmt.Errorf("environment table: %d user sets, want %d", len(table[e]), len(usets)))
				return
			}
			var tm []map[string]bool
			var tl [][]string
			for i := range table[e] {
				m := map[string]bool{}
				for _, t := range table[e][i] {
					m[t] = true
				}
				l := append([]string{}, table[e][i]...)
				sort.Strings(l)
				tm = append(tm, m)
				tl = append(tl, l)
			}
			g.tags = append(g.tags, tm)
			g.lists = append(g.lists, tl)
		}
	}

	// scenario files
	files, _ := filepath.Glob(filepath.Join(r.Dir, "scen.*.ndjson"))
	sort.Strings(files)
	var all []*fileSpec
	var exprs []*exprSpec
	for _, fn := range files {
		if strings.HasSuffix(fn, "scen.env.ndjson") {
			continue
		}
		err := tlcx.ReadNDJSON(fn, func(raw json.RawMessage) error {
			var inner string
			if err := json.Unmarshal(raw, &inner); err != nil {
				return err
			}
			var rec []json.RawMessage
			if err := json.Unmarshal([]byte(inner), &rec); err != nil {
				return err
			}
			if len(rec) != 3 {
				return fmt.Errorf("record of %d elements", len(rec))
			}
			x := &exprSpec{}
			if err := json.Unmarshal(rec[0], &x.Text); err != nil {
				return err
			}
			if err := json.Unmarshal(rec[1], &x.EvMasks); err != nil || len(x.EvMasks) != len(envs) {
				return fmt.Errorf("eval masks of %q: %v", x.Text, err)
			}
			var fs [][]json.RawMessage
			if err := json.Unmarshal(rec[2], &fs); err != nil {
				return err
			}
			exprs = append(exprs, x)
			for _, t := range fs {
				if len(t) != 5 {
					return fmt.Errorf("file tuple of %d elements", len(t))
				}
				f := &fileSpec{X: x}
				if err := json.Unmarshal(t[0], &f.Name); err != nil {
					return err
				}
				json.Unmarshal(t[1], &f.On)
				json.Unmarshal(t[2], &f.Off)
				if err := json.Unmarshal(t[3], &f.Masks); err != nil || len(f.Masks) != len(envs) {
					return fmt.Errorf("masks of %s: %v", f.Name, err)
				}
				if err := json.Unmarshal(t[4], &f.Cgo); err != nil {
					return err
				}
				all = append(all, f)
			}
			return nil
		})
		if err != nil {
			c.Infra(fmt.Errorf("decode %s: %v", fn, err))
			return
		}
	}
	if len(all) == 0 {
		c.Infra(fmt.Errorf("ConstraintsScen emitted no files"))
		return
	}
	// specification guard (1) for every expression under every tag set
	badExpr := make([]int, len(exprs))
	c.ParMap(len(exprs), func(k int) { badExpr[k] = g.checkExpr(exprs[k]) })
	nbad := 0
	for _, b := range badExpr {
		nbad += b
	}
	{
		kept := all[:0]
		for _, f := range all {
			if f.X.Invalid { // the specification wrote something that is not a //go:build expression
				atomic.AddInt64(&s.disc, int64(len(envs)*len(usets)))
				continue
			}
			kept = append(kept, f)
		}
		all = kept
	}
	c.Set("expressions", len(exprs))
	c.Set("expression_evaluations_rejected_by_go_build_constraint", nbad)
	c.Set("files", len(all))
	c.Set("exhaustive", mod == 1 && xmod == 1)
	c.Set("core_forms_per_depth2_expression", nforms)
	c.Set("rule", fmt.Sprintf("TLC enumerates //go:build expressions of depth <= 2 over %d tags (operands of && and || as unordered pairs, no double negation; depth-2 binary expressions kept iff (31i+17j+7op+salt) %% %d = 0) x %d of 9 core file-name forms (all 9 for depth <= 1 and negations), 1 of %d depth<=1 expressions x 24 further forms (test files, reversed and unknown suffixes, hidden files, cgo files, .inc.js files) and OS-named stems; every file is predicted under %d environments x %d user tag sets; an evaluation is one (file, environment, user tag set) compared with a real Import; distinct = distinct (file name, constraint) pairs with a constraint or a constraining name", len(vocabulary), mod, nforms, xmod, len(envs), len(usets)))
	for _, f := range all {
		if f.X.Text != "" || !nameFree(f.Name) {
			c.Distinct(f.Name + "|" + f.X.Text)
		}
	}
	c.Phase("decode_guard")

	// directories: ~50 files each, file names unique inside a directory
	rng.Shuffle(len(all), func(i, j int) { all[i], all[j] = all[j], all[i] })
	if corrupt == "pred" {
		for _, f := range all {
			if !f.incjs() && !f.hidden() && !isStemName(f.Name) {
				f.Masks[0] ^= 1
				break
			}
		}
	}
	const perDir = 50
	ndirs := (len(all) + perDir - 1) / perDir
	dirs := make([]*dirSpec, ndirs)
	for i := range dirs {
		dirs[i] = &dirSpec{name: fmt.Sprintf("p%05d", i)}
	}
	{
		nth := map[string]int{}
		k, dropped := 0, 0
		for _, f := range all {
			if isStemName(f.Name) {
				// names that occur many times (js.go, linux.go, ...): the n-th one goes to directory n
				n := nth[f.Name]
				nth[f.Name] = n + 1
				if n >= ndirs {
					dropped++
					continue
				}
				dirs[n].files = append(dirs[n].files, f)
				continue
			}
			dirs[k%ndirs].files = append(dirs[k%ndirs].files, f)
			k++
		}
		c.Set("files_dropped_name_collision", dropped)
	}
	// directories in which no Go file is selected under the default environments
	// (Import must fail with NoGoError there)
	{
		var never []*fileSpec
		for _, f := range all {
			if !f.incjs() && !f.hidden() && f.Masks[0] == 0 && f.Masks[1] == 0 && !isStemName(f.Name) {
				never = append(never, f)
			}
		}
		for k := 0; k < 3 && len(never) >= 8*(k+1); k++ {
			dirs = append(dirs, &dirSpec{name: fmt.Sprintf("n%05d", k), files: never[8*k : 8*k+8]})
		}
	}
	c.Set("directories", len(dirs))

	writeDir := func(d *dirSpec) error {
		p := filepath.Join(st.modDir, d.name)
		if err := os.MkdirAll(p, 0o755); err != nil {
			return err
		}
		for _, f := range d.files {
			if err := os.WriteFile(filepath.Join(p, f.Name), []byte(f.content(d.name)), 0o644); err != nil {
				return err
			}
		}
		return nil
	}
	importDir := func(d *dirSpec, e int) {
		j, how := st.job(e, d.name, usets)
		res, err := st.pools[e].call(j)
		if err != nil {
			s.infra(err)
			return
		}
		atomic.AddInt64(&s.calls, int64(len(res)))
		for i := range res {
			s.compare(d, e, i, res[i], how, "")
		}
	}
	// batches of directories: write, load under every environment, remove.
	// The first batch is written up front and stays for the import-path stage.
	const batch = 32
	nb := (len(dirs) + batch - 1) / batch
	first := dirs[:min(batch, len(dirs))]
	for _, d := range first {
		if err := writeDir(d); err != nil {
			c.Infra(err)
			return
		}
	}
	const envEvery = 4 // the environments with GOOS/GOARCH set are used on every 4th directory
	var wg sync.WaitGroup
	stage := func(name string, f func()) {
		wg.Add(1)
		go func() {
			defer wg.Done()
			t0 := time.Now()
			f()
			c.Set("stage_s_"+name, float64(int(time.Since(t0).Seconds()*10))/10)
		}()
	}
	stage("import", func() {
		c.ParMap(nb, func(b int) {
			if atomic.LoadInt32(&s.failed) != 0 {
				return
			}
			lo, hi := b*batch, (b+1)*batch
			if hi > len(dirs) {
				hi = len(dirs)
			}
			if b != 0 {
				for _, d := range dirs[lo:hi] {
					if err := writeDir(d); err != nil {
						s.infra(err)
						return
					}
				}
			}
			for k, d := range dirs[lo:hi] {
				for e := range envs {
					if (envs[e].GOOS != "js") && (lo+k)%envEvery != 0 {
						continue
					}
					importDir(d, e)
				}
			}
			// a standard-library directory named by a relative path is still a
			// standard-library package (go/build reports Goroot and its import path)
			for k, d := range dirs[lo:hi] {
				if (lo+k)%16 != 1 {
					continue
				}
				how := "Import(\".\", GOROOT/src/vstd/" + d.name + ", 0) with GOPHERJS_GOROOT pointing at a tree that contains src/vstd"
				res, err := st.pools[1].call(importJob{Path: ".", SrcDir: filepath.Join(st.fakeRoot, "src", "vstd", d.name), TagSets: usets})
				if err != nil {
					s.infra(err)
					return
				}
				atomic.AddInt64(&s.calls, int64(len(res)))
				c.Add("imports_std_by_relative_path", len(res))
				for i := range res {
					s.compare(d, 1, i, res[i], how, "std_by_relative_path")
				}
			}
			if b != 0 {
				for _, d := range dirs[lo:hi] {
					os.RemoveAll(filepath.Join(st.modDir, d.name))
				}
			}
		})
	})
	c.Set("envs_with_goos_goarch_set_cover_every_nth_directory", envEvery)

	// module-mode import by import path (go list resolves the directory; the
	// working directory of the worker is the module root)
	stage("import_by_path", func() {
		nby := c.Pick(4, 24)
		if nby > len(first) {
			nby = len(first)
		}
		parMap(nby, 2, func(k int) {
			d := first[k]
			idx := []int{(k * 5) % len(usets), (k*5 + 7) % len(usets)}
			sel := [][]string{usets[idx[0]], usets[idx[1]]}
			for _, e := range []int{0, 2} {
				res, err := st.pools[e].call(importJob{Path: "vp/" + d.name, SrcDir: st.modDir, TagSets: sel, Suffix: "min"})
				if err != nil {
					s.infra(err)
					return
				}
				atomic.AddInt64(&s.calls, int64(len(res)))
				c.Add("imports_by_path", len(res))
				for x := range res {
					s.compare(d, e, idx[x], res[x], "Import(\"vp/"+d.name+"\", moduleRoot, 0) in module mode", "")
				}
			}
		})
	})

	// end to end: build and run, each selected file registers itself
	stage("end_to_end", func() { s.endToEnd(pool, first, rand.New(rand.NewSource(c.Seed+1))) })

	// real standard-library directories
	stage("real_std", func() {
		rs := <-realReady
		realReady <- rs
		if rs != nil {
			s.realCompare(rs)
		}
	})
	wg.Wait()
	c.Phase("import_e2e_real")
	if atomic.LoadInt32(&s.failed) != 0 {
		return
	}

	c.Set("evaluations", int(s.evals))
	c.Set("import_calls", int(s.calls))
	c.Set("spec_guard_discards", int(s.disc))
	c.Set("traces_validated_against_impl", int(s.evals))
	c.Set("guard_constraint_evals", int(g.nC))
	c.Set("guard_matchfile_evals", int(g.nM))
	if s.disc > 0 {
		fmt.Printf("note: %d evaluations discarded because a reference implementation of the standard library disagrees with the specification\n", s.disc)
	}
	s.report()
	for k := 0; k < 5; k++ {
		f := all[k*len(all)/5]
		c.Sample(map[string]any{"file": f.Name, "constraint": f.X.Text, "when_selected": f.On, "when_not": f.Off,
			"selected_mask_per_env": f.Masks, "envs": envs, "user_sets_bit_order": usets})
	}
}

// corrupt (VERIF_C18_CORRUPT) is a self-test of the binding: "obs" drops one
// file from one observed GoFiles list (the check must report a violation),
// "pred" flips one predicted bit (the guard must discard that evaluation).
var corrupt = os.Getenv("VERIF_C18_CORRUPT")

// parMap runs f on 0..n-1 with at most limit goroutines.
func parMap(n, limit int, f func(i int)) {
	if limit < 1 {
		limit = 1
	}
	sem := make(chan struct{}, limit)
	var wg sync.WaitGroup
	for i := 0; i < n; i++ {
		wg.Add(1)
		sem <- struct{}{}
		go func(i int) {
			defer wg.Done()
			defer func() { <-sem }()
			f(i)
		}(i)
	}
	wg.Wait()
}

func isStemName(n string) bool {
	switch n {
	case "js.go", "linux.go", "wasm.go", "js_linux.go", "linux_js.go", "test.go":
		return true
	}
	return false
}

func min(a, b int) int {
	if a < b {
		return a
	}
	return b
}

// replay re-decides one recorded scenario (scenario.json of a replay directory).
func replay(c *core.Ctx, dir string) {
	b, err := os.ReadFile(filepath.Join(dir, "scenario.json"))
	if err != nil {
		c.Infra(err)
		return
	}
	var sc struct {
		Env    envSpec           `json:"env"`
		Tags   []string          `json:"tags"`
		Dir    string            `json:"dir"`
		Files  map[string]string `json:"files"`
		Expect map[string]string `json:"expect"`
		Real   string            `json:"real_package"`
		Mode   string            `json:"mode"`
	}
	if err := json.Unmarshal(b, &sc); err != nil {
		c.Infra(err)
		return
	}
	st, err := newSetup(c, 1)
	if err != nil {
		c.Infra(err)
		return
	}
	defer st.close()
	e := -1
	for k := range envs {
		if envs[k] == sc.Env {
			e = k
		}
	}
	if e < 0 {
		c.Infra(fmt.Errorf("replay: unknown environment %+v", sc.Env))
		return
	}
	var res []importResult
	if sc.Real != "" {
		res, err = st.pools[e&^1].call(importJob{Path: sc.Real, TagSets: [][]string{sc.Tags}})
	} else {
		p := filepath.Join(st.modDir, sc.Dir)
		os.MkdirAll(p, 0o755)
		for n, content := range sc.Files {
			os.WriteFile(filepath.Join(p, n), []byte(content), 0o644)
		}
		j, _ := st.job(e, sc.Dir, [][]string{sc.Tags})
		switch sc.Mode {
		case "stdrel":
			j = importJob{Path: ".", SrcDir: filepath.Join(st.fakeRoot, "src", "vstd", sc.Dir), TagSets: [][]string{sc.Tags}}
		case "bypath":
			j = importJob{Path: "vp/" + sc.Dir, SrcDir: st.modDir, TagSets: [][]string{sc.Tags}, Suffix: "min"}
		}
		res, err = st.pools[e].call(j)
	}
	if err != nil {
		c.Infra(err)
		return
	}
	obs := observed(res[0])
	var diff []string
	for n, want := range sc.Expect {
		got, ok := obs[n]
		if !ok {
			got = "none"
		}
		if got != want {
			diff = append(diff, fmt.Sprintf("%s: expected %s, observed %s", n, want, got))
		}
	}
	sort.Strings(diff)
	c.Set("evaluations", len(sc.Expect))
	if res[0].Err != "" {
		diff = append(diff, "Import error: "+res[0].Err)
	}
	if len(diff) > 0 {
		c.Report(core.Case{Keys: []string{"replay"}, Summary: "replay of " + dir + ": " + strings.Join(diff, "; "), Files: map[string]string{"scenario.json": string(b)}})
	}
}
