// Package c18 decides C18 (see DESIGN.md section 4). Not built yet.
package c18
