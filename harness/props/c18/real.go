package c18

import (
	"bufio"
	"encoding/json"
	"fmt"
	"go/build"
	"go/build/constraint"
	"go/parser"
	"go/token"
	"os"
	"path/filepath"
	"sort"
	"strings"
	"sync/atomic"
	"time"

	"verif/tlcx"
)

// Real standard-library directories (none of them is touched by the post-load
// tweaks of build/context.go).  They bring the vocabulary of real code: unix,
// race, goexperiment.*, cgo files, _test files, GOOS_GOARCH suffixes.
var realPkgs = []string{"os", "syscall", "internal/goos", "os/user", "net", "time",
	"path/filepath", "internal/goarch", "internal/cpu", "internal/syscall/unix", "internal/poll", "os/signal", "os/exec",
	"crypto/rand", "math/big", "internal/bytealg", "hash/crc32", "crypto/sha256", "math", "mime", "log/syslog", "plugin",
	"runtime/cgo", "internal/syscall/execenv", "crypto/x509", "internal/testenv"}

type realFile struct {
	Kind  string   `json:"kind"`
	Pre   string   `json:"pre"`
	Parts []string `json:"parts"`
	Expr  any      `json:"expr"`
	Cgo   bool     `json:"cgo"`
	name  string
}

type realPkg struct {
	Path  string     `json:"path"`
	Files []realFile `json:"files"`
	dir   string
}

func toAST(x constraint.Expr) any {
	switch x := x.(type) {
	case *constraint.TagExpr:
		return []any{"tag", x.Tag}
	case *constraint.NotExpr:
		return []any{"not", toAST(x.X)}
	case *constraint.AndExpr:
		return []any{"and", toAST(x.X), toAST(x.Y)}
	case *constraint.OrExpr:
		return []any{"or", toAST(x.X), toAST(x.Y)}
	}
	panic(fmt.Sprintf("unknown constraint expression %T", x))
}

// readReal reads name, //go:build line and cgo use of one file. ok=false: the
// file is outside what the specification models (legacy "// +build" only,
// several dots in the name, unreadable).
func readReal(dir, name string) (rf realFile, ok bool) {
	rf = realFile{Kind: "go", name: name, Expr: []any{"true"}}
	base := name
	if base[0] == '_' || base[0] == '.' {
		rf.Pre, base = base[:1], base[1:]
	}
	stem := strings.TrimSuffix(base, ".go")
	if stem == "" || strings.Contains(stem, ".") {
		return rf, false
	}
	rf.Parts = strings.Split(stem, "_")
	f, err := os.Open(filepath.Join(dir, name))
	if err != nil {
		return rf, false
	}
	defer f.Close()
	sc := bufio.NewScanner(f)
	sc.Buffer(make([]byte, 1<<16), 1<<22)
	plus, inBlock := false, false
	for sc.Scan() {
		l := strings.TrimSpace(sc.Text())
		if inBlock {
			if strings.Contains(l, "*/") {
				inBlock = false
			}
			continue
		}
		if strings.HasPrefix(l, "/*") {
			if !strings.Contains(l, "*/") {
				inBlock = true
			}
			continue
		}
		if l == "" {
			continue
		}
		if !strings.HasPrefix(l, "//") {
			break // package clause: end of the header
		}
		if constraint.IsGoBuild(l) {
			x, err := constraint.Parse(l)
			if err != nil {
				return rf, false
			}
			rf.Expr = toAST(x)
			plus = false
			break
		}
		if constraint.IsPlusBuild(l) {
			plus = true
		}
	}
	if plus {
		return rf, false
	}
	pf, err := parser.ParseFile(token.NewFileSet(), filepath.Join(dir, name), nil, parser.ImportsOnly)
	if err != nil {
		return rf, false
	}
	for _, im := range pf.Imports {
		if im.Path.Value == `"C"` {
			rf.Cgo = true
		}
	}
	if pf.Name.Name == "documentation" {
		return rf, false
	}
	return rf, true
}

type realPred struct {
	on, off string
	masks   []int
}

// realScen is the scenario of real standard-library directories with the
// predictions of ConstraintsReal.
type realScen struct {
	pkgs    []*realPkg
	preds   map[string]map[string]realPred
	skipped int
}

var realEnvs = []envSpec{envs[1], envs[3]}

// realPrepare reads real directories of GOROOT/src and lets TLC predict their selection.
func (s *state) realPrepare() *realScen {
	c := s.c
	goroot := build.Default.GOROOT
	names := realPkgs
	if !c.Thorough() {
		names = names[:6]
	}
	var pkgs []*realPkg
	skipped := 0
	for _, p := range names {
		dir := filepath.Join(goroot, "src", filepath.FromSlash(p))
		ents, err := os.ReadDir(dir)
		if err != nil {
			continue // not in this Go release
		}
		rp := &realPkg{Path: p, dir: dir}
		for _, en := range ents {
			if en.IsDir() || !strings.HasSuffix(en.Name(), ".go") {
				continue
			}
			rf, ok := readReal(dir, en.Name())
			if !ok {
				skipped++
				continue
			}
			rp.Files = append(rp.Files, rf)
		}
		if len(rp.Files) > 0 {
			pkgs = append(pkgs, rp)
		}
	}
	if len(pkgs) == 0 {
		s.infra(fmt.Errorf("real standard library: no directory readable under %s", goroot))
		return nil
	}
	stdEnvs := realEnvs
	params := map[string]any{"usersets": s.usets, "envs": stdEnvs, "pkgs": pkgs, "out": "real"}
	pj, _ := json.Marshal(params)
	cfg := "SPECIFICATION Spec\nINVARIANT Emit\nINVARIANT EnvBlind\nCHECK_DEADLOCK FALSE\n"
	r, err := tlcx.Run(c, tlcx.Opts{Module: "ConstraintsReal", Cfg: cfg, Workers: 4, Timeout: 20 * time.Minute, Files: map[string]string{"c18_real.json": string(pj)}})
	if !tlcx.MustComplete(c, r, err, "ConstraintsReal") {
		atomic.StoreInt32(&s.failed, 1)
		return nil
	}
	type pred = realPred
	preds := map[string]map[string]pred{}
	outs, _ := filepath.Glob(filepath.Join(r.Dir, "real.*.ndjson"))
	for _, fn := range outs {
		err := tlcx.ReadNDJSON(fn, func(raw json.RawMessage) error {
			var inner string
			if err := json.Unmarshal(raw, &inner); err != nil {
				return err
			}
			var rec []json.RawMessage
			if err := json.Unmarshal([]byte(inner), &rec); err != nil || len(rec) != 2 {
				return fmt.Errorf("bad record: %v", err)
			}
			var path string
			json.Unmarshal(rec[0], &path)
			var fs [][]json.RawMessage
			if err := json.Unmarshal(rec[1], &fs); err != nil {
				return err
			}
			m := map[string]pred{}
			for _, t := range fs {
				var name string
				var p pred
				json.Unmarshal(t[0], &name)
				json.Unmarshal(t[1], &p.on)
				json.Unmarshal(t[2], &p.off)
				if err := json.Unmarshal(t[3], &p.masks); err != nil || len(p.masks) != len(stdEnvs) {
					return fmt.Errorf("masks of %s/%s: %v", path, name, err)
				}
				m[name] = p
			}
			preds[path] = m
			return nil
		})
		if err != nil {
			s.infra(fmt.Errorf("decode %s: %v", fn, err))
			return nil
		}
	}
	return &realScen{pkgs: pkgs, preds: preds, skipped: skipped}
}

// realCompare loads the real directories by import path and compares.
func (s *state) realCompare(rs *realScen) {
	c := s.c
	pkgs, preds, skipped, stdEnvs := rs.pkgs, rs.preds, rs.skipped, realEnvs
	via := []int{0, 2} // worker pools with the real GOROOT: default environment / GOOS, GOARCH set
	var tagIdx []int
	if c.Thorough() {
		for i := range s.usets {
			tagIdx = append(tagIdx, i)
		}
	} else {
		tagIdx = []int{0, 5, 10, 15}
	}
	var sel [][]string
	for _, i := range tagIdx {
		sel = append(sel, s.usets[i])
	}
	var nfiles int64
	c.ParMap(len(pkgs), func(k int) {
		p := pkgs[k]
		pm := preds[p.Path]
		if pm == nil {
			s.infra(fmt.Errorf("ConstraintsReal wrote nothing for %s", p.Path))
			return
		}
		for ei, env := range stdEnvs {
			res, err := s.st.pools[via[ei]].call(importJob{Path: p.Path, SrcDir: "", TagSets: sel})
			if err != nil {
				s.infra(err)
				return
			}
			atomic.AddInt64(&s.calls, int64(len(res)))
			for x, r := range res {
				i := tagIdx[x]
				// tag set of the specification for the guard: the scenario table has the same environments
				specTags := s.g.lists[1+2*ei][i]
				how := fmt.Sprintf("Import(%q, \"\", 0) with the real GOROOT", p.Path)
				ctxDesc := fmt.Sprintf("%s, -tags %q, %s", env, strings.Join(s.usets[i], ","), how)
				loadable := false
				exp := map[string]string{}
				for _, f := range p.Files {
					pr, ok := pm[f.name]
					if !ok {
						s.infra(fmt.Errorf("ConstraintsReal: no prediction for %s/%s", p.Path, f.name))
						return
					}
					l := pr.off
					if pr.masks[ei]>>uint(i)&1 == 1 {
						l = pr.on
					}
					exp[f.name] = l
					if l == "GoFiles" || l == "TestGoFiles" {
						loadable = true
					}
				}
				if r.Err != "" {
					if r.NoGo && !loadable {
						atomic.AddInt64(&s.evals, int64(len(p.Files)))
						continue
					}
					s.record(env.key()+":real:import_error", fmt.Sprintf("%s: Import failed (specification: loadable=%v): %s", ctxDesc, loadable, r.Err),
						func() map[string]string {
							return scenarioFiles(env, s.usets[i], how, p.Path, nil, exp, map[string]any{"real_package": p.Path, "error": r.Err})
						})
					continue
				}
				if !r.Goroot {
					s.infra(fmt.Errorf("%s: not reported as a GOROOT package", ctxDesc))
					return
				}
				obs := observed(r)
				for _, f := range p.Files {
					want := exp[f.name]
					got, ok := obs[f.name]
					if !ok {
						got = "none"
					}
					// guard: the standard library's MatchFile on the real file under the specification's tag set
					gl := "none"
					if f.Pre == "" {
						ctxt := build.Context{BuildTags: specTags}
						m, err := ctxt.MatchFile(p.dir, f.name)
						atomic.AddInt64(&s.g.nM, 1)
						switch {
						case err != nil:
							gl = "error"
						case !m || f.Cgo:
							gl = "IgnoredGoFiles"
						case strings.HasSuffix(f.name, "_test.go"):
							gl = "TestGoFiles"
						default:
							gl = "GoFiles"
						}
					}
					if gl != want {
						atomic.AddInt64(&s.disc, 1)
						continue
					}
					atomic.AddInt64(&s.evals, 1)
					atomic.AddInt64(&nfiles, 1)
					if got == want {
						continue
					}
					f := f
					key := fmt.Sprintf("%s:real:%s_as_%s", env.key(), want, got)
					s.record(key, fmt.Sprintf("%s: file %s must be in %s, Import reported %s", ctxDesc, f.name, want, got),
						func() map[string]string {
							out := scenarioFiles(env, s.usets[i], how, p.Path, nil, map[string]string{f.name: want},
								map[string]any{"real_package": p.Path, "file": f.name, "observed": got, "spec_tags": specTags, "parsed": f})
							return out
						})
				}
			}
		}
	})
	var pn []string
	for _, p := range pkgs {
		pn = append(pn, p.Path)
	}
	sort.Strings(pn)
	c.Set("real_std_packages", pn)
	c.Set("real_std_files_outside_model", skipped)
	c.Set("real_std_evaluations", int(nfiles))
}
