package c10

import (
	"fmt"
	"sort"
	"strings"

	"verif/gjs"
)

// NamePool is the file-name pool of the scenarios, ASCENDING bytewise (Init.tla
// compares indices instead of names).  The names separate plausible wrong orders
// from the two allowed ones: upper/lower case (case-insensitive order), '_' vs
// letters vs '.', different lengths (order by length), digits.
var NamePool = []string{"B.go", "a.go", "a_b.go", "ab.go", "b.go", "z0.go"}

// NamePairs are the two-file packages (1-based indices into NamePool, i < j).
var NamePairs = [][2]int{{2, 5}, {2, 3}, {1, 2}, {3, 4}, {4, 5}, {1, 6}, {2, 4}, {5, 6}}

// OneFile is the name used by single-file packages of the fixed families.
const OneFile = 2

func sortStrings(s []string) { sort.Strings(s) }

// The renderer turns a program of Init.tla into a Go module:
//
//	vp        package 1 (main), files in the module root
//	vp/p<k>   package k >= 2
//	vp/rt     Trip: a channel round trip through a server goroutine that an earlier
//	          call started (outside the model: it prints nothing when initialised)
//
// Names are numbered per package and class (V1.. F1.. T1.. L1..; lower case when
// not exported; every method is called M/m), so equal names occur in different
// packages and on different types; the printed marker carries the global
// declaration index.
//
//	var, direct     var V1 = mk(7, v2+p3.V1)              mk prints "v 7 a", returns 7+a
//	var, func       var V1 = iv1()                        iv1: suspend; a := sum of refs; print; return
//	func            func F1() int32 { suspend; a := ...; println("f", 7, a); return a + 7 }
//	method          type T1 struct{ X int32 } | int32; a starts at the receiver's X (1000);
//	                the receiver is set to a+7 before returning (visible only through a pointer)
//	init / main     the same with tags i / m
//	lref            //go:linkname L1 vp/p3.(*T2).M  +  func L1(r *R1) int32, R1 mirrors T2;
//	                a call through it prints "r <lref> <receiver after the call>"
//
// One statement per reference, the suspension first and in its own statement: an
// expression never mixes a call that can suspend with one that cannot (the known
// reordering of such calls is C01's finding, not this property's).
type rend struct {
	s     *Scen
	vnum  []int // local number per class, by declaration
	fnum  []int
	lnum  []int
	trip  map[int]bool // packages that need the helper trip
	mk    map[int]bool
	useRT bool
}

type uses map[string]bool

func pkgName(p int) string {
	if p == 1 {
		return "main"
	}
	return fmt.Sprintf("p%d", p)
}

func pkgPath(p int) string {
	if p == 1 {
		return "vp"
	}
	return fmt.Sprintf("vp/p%d", p)
}

func (r *rend) qual(from, to int, u uses) string {
	if from == to {
		return ""
	}
	u[pkgPath(to)] = true
	return pkgName(to) + "."
}

func up(ex bool, s string) string {
	if ex {
		return strings.ToUpper(s[:1]) + s[1:]
	}
	return s
}

func (r *rend) varName(i int) string  { return up(r.s.Decls[i-1].Ex, "v") + fmt.Sprint(r.vnum[i-1]) }
func (r *rend) funcName(i int) string { return up(r.s.Decls[i-1].Ex, "f") + fmt.Sprint(r.fnum[i-1]) }
func (r *rend) typeName(i int) string {
	// a rendering dimension with unchanged prediction: in every other program (by the
	// shape of the scenario, so that a replay renders the same text) receiver types have
	// one-letter names, so that linkname symbols take their shortest form "(*A).m"
	const letters = "ABCDEGHJKNPQSUWYZ"
	if n := r.fnum[i-1]; shortNames(r.s) && n >= 1 && n <= len(letters) {
		return letters[n-1 : n]
	}
	return "T" + fmt.Sprint(r.fnum[i-1])
}

func shortNames(s *Scen) bool {
	n := len(s.Decls)
	for _, d := range s.Decls {
		n += d.Pk + len(d.Refs)
	}
	return n%2 == 0
}
func (r *rend) methName(i int) string { return up(r.s.Decls[i-1].Ex, "m") }
func (r *rend) lrefName(i int) string { return up(r.s.Decls[i-1].Ex, "l") + fmt.Sprint(r.lnum[i-1]) }
func (r *rend) mirror(i int) string   { return "R" + fmt.Sprint(r.lnum[i-1]) }

func lit(typ, rk string) string {
	if rk == "int" {
		return typ + "(1000)"
	}
	return typ + "{X: 1000}"
}

func field(x, rk string) string {
	if rk == "int" {
		return "int32(" + x + ")"
	}
	return x + ".X"
}

// linkSym is the symbol a linkname directive names for declaration t.
func (r *rend) linkSym(t int) string {
	d := r.s.Decls[t-1]
	switch d.Fk {
	case "vmeth":
		return pkgPath(d.Pk) + "." + r.typeName(t) + "." + r.methName(t)
	case "pmeth":
		return pkgPath(d.Pk) + ".(*" + r.typeName(t) + ")." + r.methName(t)
	}
	if d.Kind == "var" || d.Kind == "zvar" {
		return pkgPath(d.Pk) + "." + r.varName(t)
	}
	return pkgPath(d.Pk) + "." + r.funcName(t)
}

// body renders suspension + the references of declaration i; the accumulator a
// must already be declared.
func (r *rend) body(i int, u uses) []string {
	d := r.s.Decls[i-1]
	p := d.Pk
	var ls []string
	for _, ref := range d.Refs {
		t := r.s.Decls[ref.D-1]
		q := r.qual(p, t.Pk, u)
		switch {
		case ref.K == "read":
			ls = append(ls, "a += "+q+r.varName(ref.D))
		case ref.K == "fref":
			ls = append(ls, "_ = "+q+r.funcName(ref.D))
		case t.Kind == "func" && t.Fk == "func":
			ls = append(ls, "a += "+q+r.funcName(ref.D)+"()")
		case t.Kind == "func":
			ls = append(ls, fmt.Sprintf("{\n\t\tx := %s\n\t\ta += x.%s()\n\t}", lit(q+r.typeName(ref.D), t.Rk), r.methName(ref.D)))
		case t.Kind == "lref":
			tt := r.s.Decls[t.Tg-1]
			switch tt.Fk {
			case "vmeth":
				ls = append(ls, fmt.Sprintf("{\n\t\tx := %s\n\t\ta += %s(x)\n\t\tprintln(\"r\", %d, %s)\n\t}",
					lit(q+r.mirror(ref.D), tt.Rk), q+r.lrefName(ref.D), ref.D, field("x", tt.Rk)))
			case "pmeth":
				ls = append(ls, fmt.Sprintf("{\n\t\tx := %s\n\t\ta += %s(&x)\n\t\tprintln(\"r\", %d, %s)\n\t}",
					lit(q+r.mirror(ref.D), tt.Rk), q+r.lrefName(ref.D), ref.D, field("x", tt.Rk)))
			default:
				ls = append(ls, "a += "+q+r.lrefName(ref.D)+"()")
			}
		}
	}
	return ls
}

func (r *rend) suspend(i int, u uses) []string {
	d := r.s.Decls[i-1]
	switch d.Blk {
	case "yield":
		u["runtime"] = true
		return []string{"runtime.Gosched()"}
	case "trip":
		r.trip[d.Pk] = true
		return []string{fmt.Sprintf("trip(%d)", i)}
	case "srv":
		u["vp/rt"] = true
		r.useRT = true
		return []string{fmt.Sprintf("rt.Trip(%d)", i)}
	}
	return nil
}

func block(head string, lines []string) string {
	var b strings.Builder
	b.WriteString(head + " {\n")
	for _, l := range lines {
		b.WriteString("\t" + l + "\n")
	}
	b.WriteString("}\n")
	return b.String()
}

// decl renders declaration i.
func (r *rend) decl(i int, u uses) string {
	d := r.s.Decls[i-1]
	switch d.Kind {
	case "zvar":
		return "var " + r.varName(i) + " int32\n"
	case "var":
		if d.Sty == "direct" {
			r.mk[d.Pk] = true
			sum := "0"
			for _, ref := range d.Refs {
				t := r.s.Decls[ref.D-1]
				sum += " + " + r.qual(d.Pk, t.Pk, u) + r.varName(ref.D)
			}
			return fmt.Sprintf("var %s = mk(%d, %s)\n", r.varName(i), i, sum)
		}
		fn := fmt.Sprintf("iv%d", r.vnum[i-1])
		ls := append(r.suspend(i, u), "a := int32(0)")
		ls = append(ls, r.body(i, u)...)
		ls = append(ls, fmt.Sprintf("println(\"v\", %d, a)", i), fmt.Sprintf("return a + %d", i))
		return fmt.Sprintf("var %s = %s()\n\n", r.varName(i), fn) + block("func "+fn+"() int32", ls)
	case "func":
		ls := r.suspend(i, u)
		switch d.Fk {
		case "func":
			ls = append(ls, "a := int32(0)")
			ls = append(ls, r.body(i, u)...)
			ls = append(ls, fmt.Sprintf("println(\"f\", %d, a)", i), fmt.Sprintf("return a + %d", i))
			return block("func "+r.funcName(i)+"() int32", ls)
		default:
			T := r.typeName(i)
			recv, get, set := "r "+T, field("r", d.Rk), ""
			if d.Fk == "pmeth" {
				recv = "r *" + T
				if d.Rk == "int" {
					get = "int32(*r)"
				}
			}
			switch {
			case d.Rk == "struct":
				set = fmt.Sprintf("r.X = a + %d", i)
			case d.Fk == "pmeth":
				set = fmt.Sprintf("*r = %s(a + %d)", T, i)
			default:
				set = fmt.Sprintf("r = %s(a + %d)\n\t_ = r", T, i)
			}
			ls = append(ls, "a := "+get)
			ls = append(ls, r.body(i, u)...)
			ls = append(ls, set, fmt.Sprintf("println(\"f\", %d, a)", i), fmt.Sprintf("return a + %d", i))
			td := "type " + T + " struct{ X int32 }\n\n"
			if d.Rk == "int" {
				td = "type " + T + " int32\n\n"
			}
			return td + block("func ("+recv+") "+r.methName(i)+"() int32", ls)
		}
	case "init", "main":
		tag, name := "i", "init"
		if d.Kind == "main" {
			tag, name = "m", "main"
		}
		ls := append(r.suspend(i, u), "a := int32(0)")
		ls = append(ls, r.body(i, u)...)
		ls = append(ls, fmt.Sprintf("println(%q, %d, a)", tag, i))
		return block("func "+name+"()", ls)
	case "lref":
		t := r.s.Decls[d.Tg-1]
		name := r.lrefName(i)
		dir := "//go:linkname " + name + " " + r.linkSym(d.Tg) + "\n"
		if d.Bad != "nounsafe" {
			u["_unsafe"] = true
		}
		switch d.Bad {
		case "var":
			return dir + "var " + name + " int32\n"
		case "push":
			return dir + "func " + name + "() int32 { return 0 }\n"
		}
		switch t.Fk {
		case "vmeth", "pmeth":
			R := r.mirror(i)
			td := "type " + R + " struct{ X int32 }\n\n"
			if t.Rk == "int" {
				td = "type " + R + " int32\n\n"
			}
			star := ""
			if t.Fk == "pmeth" {
				star = "*"
			}
			return td + dir + "func " + name + "(r " + star + R + ") int32\n"
		}
		return dir + "func " + name + "() int32\n"
	}
	return ""
}

const rtSrc = `package rt

var req, rep chan int32

func server() {
	for {
		v := <-req
		println("h", v)
		rep <- v
	}
}

// Trip is a channel round trip through the server goroutine; the first call
// starts it, every later call meets a goroutine that was started earlier.
func Trip(id int32) {
	if req == nil {
		req = make(chan int32)
		rep = make(chan int32)
		go server()
	}
	req <- id
	<-rep
}
`

const tripSrc = `func trip(id int32) {
	c := make(chan int32)
	go func() {
		println("h", id)
		c <- id
	}()
	<-c
}
`

const mkSrc = `func mk(id, a int32) int32 {
	println("v", id, a)
	return id + a
}
`

// Render returns the module of a scenario.
func Render(s *Scen) gjs.Prog {
	n := len(s.Decls)
	r := &rend{s: s, vnum: make([]int, n), fnum: make([]int, n), lnum: make([]int, n), trip: map[int]bool{}, mk: map[int]bool{}}
	cnt := map[[2]int]int{}
	for i, d := range s.Decls {
		switch d.Kind {
		case "var", "zvar":
			cnt[[2]int{d.Pk, 0}]++
			r.vnum[i] = cnt[[2]int{d.Pk, 0}]
		case "func":
			cnt[[2]int{d.Pk, 1}]++
			r.fnum[i] = cnt[[2]int{d.Pk, 1}]
		case "lref":
			cnt[[2]int{d.Pk, 2}]++
			r.lnum[i] = cnt[[2]int{d.Pk, 2}]
		}
	}
	files := map[string]string{}
	for p := 1; p <= s.Np; p++ {
		bodies := make([]string, len(s.Files[p-1]))
		us := make([]uses, len(s.Files[p-1]))
		for f := range us {
			us[f] = uses{}
		}
		for i, d := range s.Decls {
			if d.Pk != p {
				continue
			}
			bodies[d.Fi-1] += r.decl(i+1, us[d.Fi-1]) + "\n"
		}
		used := map[string]bool{}
		for _, u := range us {
			for k := range u {
				used[k] = true
			}
		}
		for _, q := range s.Imp[p-1] {
			if !used[pkgPath(q)] {
				us[0]["_"+pkgPath(q)] = true
			}
		}
		// In every other program the files of a multi-file package start with a //line
		// directive (as goyacc / cgo output does) that claims a name sorting the other way
		// round than the real one: the file order depends on the real names only.
		claimed := map[int]string{}
		if ids := s.Files[p-1]; len(ids) > 1 && lineDirectives(s) {
			sorted := append([]int{}, ids...)
			sort.Slice(sorted, func(i, j int) bool { return NamePool[sorted[i]-1] < NamePool[sorted[j]-1] })
			for i, n := range sorted {
				claimed[n] = fmt.Sprintf("claimed_%02d.y", len(sorted)-i)
			}
		}
		for f, name := range s.Files[p-1] {
			var b strings.Builder
			if cn := claimed[name]; cn != "" {
				b.WriteString("//line " + cn + ":1\n")
			}
			b.WriteString("package " + pkgName(p) + "\n\n")
			var imps []string
			for k := range us[f] {
				switch {
				case k == "_unsafe":
					imps = append(imps, `_ "unsafe"`)
				case strings.HasPrefix(k, "_"):
					imps = append(imps, `_ "`+k[1:]+`"`)
				default:
					imps = append(imps, `"`+k+`"`)
				}
			}
			sort.Strings(imps)
			if len(imps) > 0 {
				b.WriteString("import (\n")
				for _, im := range imps {
					b.WriteString("\t" + im + "\n")
				}
				b.WriteString(")\n\n")
			}
			if f == 0 {
				if r.mk[p] {
					b.WriteString(mkSrc + "\n")
				}
				if r.trip[p] {
					b.WriteString(tripSrc + "\n")
				}
			}
			b.WriteString(bodies[f])
			dir := ""
			if p > 1 {
				dir = pkgName(p) + "/"
			}
			files[dir+NamePool[name-1]] = b.String()
		}
	}
	if r.useRT {
		files["rt/rt.go"] = rtSrc
	}
	return gjs.Prog{Files: files}
}

// lineDirectives selects (by the shape of the scenario, so that a replay renders the
// same text) the programs whose files carry //line directives.
func lineDirectives(s *Scen) bool {
	n := 0
	for _, fs := range s.Files {
		for _, f := range fs {
			n += f
		}
	}
	for _, im := range s.Imp {
		n += 3 * len(im)
	}
	return n%2 == 1
}
