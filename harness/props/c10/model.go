package c10

import (
	"encoding/json"
	"fmt"
	"strconv"
	"strings"
)

// Ref is one mention inside a body (Init.tla: refs).
type Ref struct {
	K string `json:"k"` // read | call | fref
	D int    `json:"d"` // 1-based declaration index
}

// Decl is one package-level declaration of a scenario (Init.tla).
type Decl struct {
	Pk   int    `json:"pk"`
	Fi   int    `json:"fi"`
	Kind string `json:"kind"` // var zvar func init main lref
	Sty  string `json:"sty"`  // direct | func (var)
	Blk  string `json:"blk"`  // none yield trip srv
	Fk   string `json:"fk"`   // func vmeth pmeth (func)
	Rk   string `json:"rk"`   // struct int (methods)
	Ex   bool   `json:"ex"`
	Tg   int    `json:"tg"`  // lref: the declaration it names
	Bad  string `json:"bad"` // lref: "" | var | nounsafe | push
	Refs []Ref  `json:"refs"`
}

// Scen is a program of Init.tla.
type Scen struct {
	Np    int     `json:"np"`
	Imp   [][]int `json:"imp"`
	Files [][]int `json:"files"`
	Decls []Decl  `json:"decls"`
}

// Event is one printed marker <<tag, id, a>>.
type Event struct {
	Tag string
	ID  int
	A   int
}

func (e *Event) UnmarshalJSON(b []byte) error {
	var raw []json.RawMessage
	if err := json.Unmarshal(b, &raw); err != nil {
		return err
	}
	if len(raw) != 3 {
		return fmt.Errorf("event with %d fields", len(raw))
	}
	if err := json.Unmarshal(raw[0], &e.Tag); err != nil {
		return err
	}
	if err := json.Unmarshal(raw[1], &e.ID); err != nil {
		return err
	}
	return json.Unmarshal(raw[2], &e.A)
}

func (e Event) MarshalJSON() ([]byte, error) {
	return json.Marshal([]any{e.Tag, e.ID, e.A})
}

// Line is what the rendered program prints for the event.
func (e Event) Line() string {
	if e.Tag == "h" {
		return fmt.Sprintf("h %d", e.ID)
	}
	return fmt.Sprintf("%s %d %d", e.Tag, e.ID, e.A)
}

// parseLine is the inverse of Line; ok is false for anything else (such a line
// can never be accepted).
func parseLine(l string) (Event, bool) {
	f := strings.Fields(l)
	if len(f) < 2 || len(f[0]) != 1 || !strings.Contains("vfimhr", f[0]) {
		return Event{}, false
	}
	id, err := strconv.Atoi(f[1])
	if err != nil {
		return Event{}, false
	}
	if f[0] == "h" {
		if len(f) != 2 {
			return Event{}, false
		}
		return Event{"h", id, 0}, true
	}
	if len(f) != 3 {
		return Event{}, false
	}
	if f[2] == "-0" {
		f[2] = "0"
	}
	a, err := strconv.Atoi(f[2])
	if err != nil {
		return Event{}, false
	}
	return Event{f[0], id, a}, true
}

func linesOf(evs []Event) []string {
	out := make([]string, len(evs))
	for i, e := range evs {
		out[i] = e.Line()
	}
	return out
}

// Rec is one line of scen.<sid>.ndjson.
type Rec struct {
	Sid      int             `json:"sid"`
	Fam      string          `json:"fam"`
	Key      json.RawMessage `json:"key"`
	Wf       bool            `json:"wf"`
	Rejected bool            `json:"rejected"`
	Scen     Scen            `json:"scen"`
	Orders   [][]int         `json:"orders"`
	Asc      [][]Event       `json:"asc"`
	Desc     [][]Event       `json:"desc"`
}

func (r *Rec) allowed(fo string) [][]Event {
	if fo == "asc" {
		return r.Asc
	}
	return r.Desc
}

// key is the canonical identity of the program.
func (s *Scen) key() string {
	b, _ := json.Marshal(s)
	return string(b)
}

func (s *Scen) hasLink() bool {
	for _, d := range s.Decls {
		if d.Kind == "lref" {
			return true
		}
	}
	return false
}

// sensitive reports whether the allowed traces of the two file orders differ.
func (r *Rec) sensitive() bool {
	return setKey(r.Asc) != setKey(r.Desc)
}

func setKey(ts [][]Event) string {
	m := map[string]bool{}
	for _, t := range ts {
		m[strings.Join(linesOf(t), "|")] = true
	}
	ks := make([]string, 0, len(m))
	for k := range m {
		ks = append(ks, k)
	}
	sortStrings(ks)
	return strings.Join(ks, "\n")
}

// features of a program (coverage bookkeeping).
func (s *Scen) features() map[string]bool {
	f := map[string]bool{}
	if s.Np >= 2 {
		f["multi_package"] = true
	}
	nimp := map[int]int{}
	for _, l := range s.Imp {
		for _, q := range l {
			nimp[q]++
		}
	}
	for _, n := range nimp {
		if n >= 2 {
			f["diamond"] = true
		}
	}
	for _, l := range s.Files {
		if len(l) >= 2 {
			f["two_files"] = true
		}
	}
	for i, d := range s.Decls {
		if d.Blk != "none" && d.Blk != "" {
			f["suspends:"+d.Blk] = true
			if d.Kind == "var" || d.Kind == "init" {
				f["suspending_initialiser"] = true
			}
		}
		switch d.Kind {
		case "zvar":
			f["var_without_initialiser"] = true
		case "lref":
			t := s.Decls[d.Tg-1]
			f["linkname:"+t.Fk] = true
			dir := "unrelated"
			if contains(s.Imp[d.Pk-1], t.Pk) {
				dir = "with_import"
			} else if contains(s.Imp[t.Pk-1], d.Pk) {
				dir = "against_import"
			}
			f["linkname_dir:"+dir] = true
			if d.Bad != "" {
				f["linkname_rejected:"+d.Bad] = true
			}
		}
		for _, r := range d.Refs {
			t := s.Decls[r.D-1]
			if t.Pk != d.Pk {
				f["cross_package_ref"] = true
				if t.Kind == "lref" {
					f["linkname_called_from_other_package"] = true
				}
			} else if t.Fi != d.Fi && d.Kind == "var" {
				f["dep_in_other_file"] = true
			}
			if d.Kind == "var" && (r.K == "call" || r.K == "fref") && t.Kind == "func" {
				f["dep_through_function"] = true
				if t.Fk != "func" {
					f["dep_through_method"] = true
				}
			}
			if r.K == "fref" {
				f["function_mentioned_not_called"] = true
			}
		}
		_ = i
	}
	return f
}

func contains(l []int, x int) bool {
	for _, y := range l {
		if y == x {
			return true
		}
	}
	return false
}
