// Package c10 decides C10 (packages are linked and initialised in Go order;
// linknames resolve).
//
// spec/Init.tla is the reference: the Go rules of package initialisation as a
// functional definition (VarOrder, PkgSeq, TopoOrders, RefTrace) and as a state
// machine (one action per step, a suspended initialiser suspends everything
// behind it), and the documented go:linkname directive (a call of the reference
// is a call of the implementation it names; three unsupported uses are rejected).
// spec/InitScen.tla enumerates the families of programs (import DAGs, variable
// dependency shapes, init functions per file, the linkname table, the rejected
// forms) and decodes VERIF_SEED digit strings into programs over the full
// bounds; TLC checks the definitions against each other on every program and
// writes the program with its allowed marker traces for both file orders.
// This package renders each program as a Go module, builds it with the compiler
// under test, runs it under Node and natively (guard), decides the recorded
// trace by membership in the allowed set AND by trace validation with TLC
// (spec/InitTrace.tla; both must agree), and finally requires that ONE file
// order explains every program of the run.
package c10

import (
	"encoding/json"
	"fmt"
	"math/rand"
	"os"
	"path/filepath"
	"regexp"
	"sort"
	"strings"
	"sync"
	"time"

	"verif/core"
	"verif/gjs"
	"verif/reg"
	"verif/tlcx"
)

func init() { reg.Register("C10", "model_checking", Run) }

const cfgScen = "SPECIFICATION Spec\nINVARIANTS ScenOK FamiliesWF MachOK Emit\nCHECK_DEADLOCK FALSE\n"
const cfgTrace = "SPECIFICATION TSpec\nINVARIANTS TInv Report\nCHECK_DEADLOCK FALSE\n"

// tlcWorkers: at most 8, and half of VERIF_WORKERS on a shared machine
// (VERIF_WORKERS=4 gives 2).
func tlcWorkers(c *core.Ctx) int {
	w := c.Workers / 2
	if w > 8 {
		w = 8
	}
	if w < 1 {
		w = 1
	}
	return w
}

const f13Key = "exported_bodyless_linkname_func_not_exported"

type bounds struct {
	MaxPk int `json:"maxPk"`
	Slots int `json:"slots"`
}

type tlaParams struct {
	Out   string   `json:"out"`
	Fams  []string `json:"fams"`
	NPool int      `json:"npool"`
	Pairs [][2]int `json:"pairs"`
	One   int      `json:"one"`
	Bnd   bounds   `json:"bnd"`
	Codes [][]int  `json:"codes"`
	Given []Scen   `json:"given"`
}

func decodeLine(raw json.RawMessage, into any) error {
	if len(raw) > 0 && raw[0] == '"' {
		var inner string
		if err := json.Unmarshal(raw, &inner); err != nil {
			return err
		}
		return json.Unmarshal([]byte(inner), into)
	}
	return json.Unmarshal(raw, into)
}

// runModel runs InitScen and returns the scenario records (sorted by sid).
func runModel(c *core.Ctx, p tlaParams, timeout time.Duration) ([]*Rec, *tlcx.Result, error) {
	p.Out = "scen"
	p.NPool = len(NamePool)
	p.Pairs = NamePairs
	p.One = OneFile
	if p.Codes == nil {
		p.Codes = [][]int{}
	}
	if p.Given == nil {
		p.Given = []Scen{}
	}
	pj, _ := json.Marshal(p)
	r, err := tlcx.Run(c, tlcx.Opts{Module: "InitScen", Cfg: cfgScen, Workers: tlcWorkers(c), Timeout: timeout,
		Files: map[string]string{"c10_params.json": string(pj)}, HeapMB: 6144})
	if err != nil {
		return nil, r, err
	}
	if !r.Completed {
		return nil, r, nil
	}
	files, _ := filepath.Glob(filepath.Join(r.Dir, "scen.*.ndjson"))
	var recs []*Rec
	for _, f := range files {
		err := tlcx.ReadNDJSON(f, func(raw json.RawMessage) error {
			rec := &Rec{}
			if err := decodeLine(raw, rec); err != nil {
				return err
			}
			recs = append(recs, rec)
			return nil
		})
		if err != nil {
			return nil, r, fmt.Errorf("decode %s: %v", f, err)
		}
	}
	sort.Slice(recs, func(i, j int) bool { return recs[i].Sid < recs[j].Sid })
	// the terminal states of the machine are exactly the cross-package orders of
	// the functional definition, for both file orders
	term := map[string]map[string]bool{}
	tf := filepath.Join(r.Dir, "term.ndjson")
	if _, e := os.Stat(tf); e == nil {
		err := tlcx.ReadNDJSON(tf, func(raw json.RawMessage) error {
			var t []json.RawMessage
			if err := decodeLine(raw, &t); err != nil {
				return err
			}
			if len(t) != 3 {
				return fmt.Errorf("term line with %d fields", len(t))
			}
			var sid int
			var fo string
			json.Unmarshal(t[0], &sid)
			json.Unmarshal(t[1], &fo)
			k := fmt.Sprintf("%d/%s", sid, fo)
			if term[k] == nil {
				term[k] = map[string]bool{}
			}
			term[k][string(t[2])] = true
			return nil
		})
		if err != nil {
			return nil, r, fmt.Errorf("decode %s: %v", tf, err)
		}
	}
	for _, rec := range recs {
		if !rec.Wf || rec.Rejected {
			continue
		}
		if len(rec.Orders) == 0 || len(rec.Asc) != len(rec.Orders) || len(rec.Desc) != len(rec.Orders) {
			return nil, r, fmt.Errorf("scenario %d: %d orders, %d/%d traces", rec.Sid, len(rec.Orders), len(rec.Asc), len(rec.Desc))
		}
		for _, fo := range []string{"asc", "desc"} {
			got := term[fmt.Sprintf("%d/%s", rec.Sid, fo)]
			want := map[string]bool{}
			for _, o := range rec.Orders {
				b, _ := json.Marshal(o)
				want[string(b)] = true
			}
			if len(got) != len(want) {
				return nil, r, fmt.Errorf("scenario %d (%s): the machine terminates with %d cross-package orders, the definition has %d", rec.Sid, fo, len(got), len(want))
			}
			for k := range want {
				if !got[k] {
					return nil, r, fmt.Errorf("scenario %d (%s): order %s of the definition is not reached by the machine", rec.Sid, fo, k)
				}
			}
		}
	}
	return recs, r, nil
}

// outcome of one program.
type outcome struct {
	rec   *Rec
	prog  gjs.Prog
	both  gjs.Both
	jsEv  []Event
	jsOK  bool // ended normally and every line is a marker
	natEv []Event
	natOK bool
	// decided by membership
	jsFO, natFO map[string]bool
	// index into the InitTrace batch (-1: not validated)
	jsK, natK int
	guard     string // ok | discard | none
	skip      bool   // not decided (discarded / infrastructure)
}

func parseObs(o gjs.Obs) ([]Event, bool) {
	evs := make([]Event, 0, len(o.Lines))
	ok := o.End == "exit"
	for _, l := range o.Lines {
		e, good := parseLine(l)
		if !good {
			ok = false
			e = Event{Tag: "?", ID: 0, A: 0}
		}
		evs = append(evs, e)
	}
	return evs, ok
}

func sameEvents(a, b []Event) bool {
	if len(a) != len(b) {
		return false
	}
	for i := range a {
		if a[i] != b[i] {
			return false
		}
	}
	return true
}

func member(rec *Rec, evs []Event) map[string]bool {
	m := map[string]bool{}
	for _, fo := range []string{"asc", "desc"} {
		for _, t := range rec.allowed(fo) {
			if sameEvents(t, evs) {
				m[fo] = true
				break
			}
		}
	}
	return m
}

// closest returns the allowed trace with the longest common prefix with evs
// (preferring the file order pref) and that length.
func closest(rec *Rec, evs []Event, pref string) ([]Event, int, string) {
	var best []Event
	bl, bfo := -1, ""
	fos := []string{pref, "asc", "desc"}
	for _, fo := range fos {
		for _, t := range rec.allowed(fo) {
			n := 0
			for n < len(t) && n < len(evs) && t[n] == evs[n] {
				n++
			}
			if n > bl {
				best, bl, bfo = t, n, fo
			}
		}
	}
	return best, bl, bfo
}

var reNotFunc = regexp.MustCompile(`\.(L\d+) is not a function`)

// classify returns the known-finding keys a rejected observation satisfies.
func classify(rec *Rec, o gjs.Obs, evs []Event) []string {
	var keys []string
	if o.End == "jserror" {
		if m := reNotFunc.FindStringSubmatch(o.Msg); m != nil {
			// F13: an EXPORTED body-less linknamed function called from another package, and
			// everything printed before the failure is a prefix of an allowed trace
			s := &rec.Scen
			r := renderNames(s)
			hit := false
			for _, d := range s.Decls {
				for _, ref := range d.Refs {
					t := s.Decls[ref.D-1]
					if t.Kind == "lref" && t.Ex && t.Pk != d.Pk && r.lrefName(ref.D) == m[1] {
						hit = true
					}
				}
			}
			_, n, _ := closest(rec, evs, "desc")
			if hit && n == len(evs) {
				keys = append(keys, f13Key)
			}
		}
	}
	return keys
}

func renderNames(s *Scen) *rend {
	n := len(s.Decls)
	r := &rend{s: s, vnum: make([]int, n), fnum: make([]int, n), lnum: make([]int, n), trip: map[int]bool{}, mk: map[int]bool{}}
	cnt := map[[2]int]int{}
	for i, d := range s.Decls {
		if d.Kind == "lref" {
			cnt[[2]int{d.Pk, 2}]++
			r.lnum[i] = cnt[[2]int{d.Pk, 2}]
		}
	}
	return r
}

type checker struct {
	c    *core.Ctx
	pool *gjs.Pool
	mu   sync.Mutex
}

func (ck *checker) report(o *outcome, keys []string, summary string, want []Event, extra map[string]string) {
	files := o.prog.ReplayFiles("prog")
	if want != nil {
		files["predicted.txt"] = strings.Join(linesOf(want), "\n") + "\nend=exit\n"
	}
	sj, _ := json.MarshalIndent(o.rec.Scen, "", " ")
	files["scenario.json"] = string(sj) + "\n"
	files["observed.txt"] = strings.Join(o.both.JS.Lines, "\n") + "\nend=" + o.both.JS.End + " " + o.both.JS.Msg + "\n"
	for k, v := range extra {
		files[k] = v
	}
	ck.c.Report(core.Case{Keys: keys, Summary: summary, Files: files})
}

// execute builds and runs one program.
func (ck *checker) execute(rec *Rec) *outcome {
	o := &outcome{rec: rec, jsK: -1, natK: -1}
	o.prog = Render(&rec.Scen)
	native := !rec.Rejected
	// a run that times out or whose process could not be observed ("fail": exec
	// errors, unclassifiable exit) is a tool problem on a busy machine: try again
	flaky := func(b gjs.Both) bool {
		return (b.BuildErr == nil && (b.JS.End == "timeout" || b.JS.End == "fail")) ||
			(native && b.NativeErr == "" && (b.Native.End == "timeout" || b.Native.End == "fail"))
	}
	for attempt := 0; attempt < 3; attempt++ {
		o.both = ck.pool.RunBoth(ck.c.Scratch, o.prog, gjs.Opts{}, 3*time.Minute, native, false)
		if !flaky(o.both) {
			break
		}
	}
	if o.both.BuildErr == nil {
		o.jsEv, o.jsOK = parseObs(o.both.JS)
	}
	if native && o.both.NativeErr == "" {
		o.natEv, o.natOK = parseObs(o.both.Native)
	}
	return o
}

func firstLineOf(s string) string {
	s = strings.TrimSpace(s)
	if i := strings.Index(s, "\n\nOriginal stack"); i >= 0 {
		s = s[:i]
	}
	s = strings.ReplaceAll(s, "\n", " ")
	if len(s) > 300 {
		s = s[:300]
	}
	return s
}

func tail(s string, n int) string {
	if len(s) > n {
		return s[len(s)-n:]
	}
	return s
}

// validate runs InitTrace over the recorded traces and returns, per trace, the
// file orders under which TLC accepts it.
func validate(c *core.Ctx, scens []*Scen, traces [][]Event) ([]map[string]bool, error) {
	acc := make([]map[string]bool, len(traces))
	for i := range acc {
		acc[i] = map[string]bool{}
	}
	const chunk = 1200
	for lo := 0; lo < len(traces); lo += chunk {
		hi := lo + chunk
		if hi > len(traces) {
			hi = len(traces)
		}
		type tr struct {
			Scen  *Scen   `json:"scen"`
			Lines []Event `json:"lines"`
		}
		batch := make([]tr, 0, hi-lo)
		for i := lo; i < hi; i++ {
			l := traces[i]
			if l == nil {
				l = []Event{}
			}
			batch = append(batch, tr{scens[i], l})
		}
		bj, _ := json.Marshal(batch)
		r, err := tlcx.Run(c, tlcx.Opts{Module: "InitTrace", Cfg: cfgTrace, Workers: tlcWorkers(c), Timeout: 20 * time.Minute,
			Files: map[string]string{"c10_traces.json": string(bj)}, HeapMB: 6144})
		if err != nil {
			return nil, err
		}
		if !r.Completed {
			return nil, fmt.Errorf("InitTrace: TLC did not complete (violated=%q timeout=%v)\n%s", r.Violated, r.TimedOut, tlcx.Tail(r.Output, 40))
		}
		af := filepath.Join(r.Dir, "accepted.ndjson")
		if _, e := os.Stat(af); e == nil {
			err := tlcx.ReadNDJSON(af, func(raw json.RawMessage) error {
				var t []json.RawMessage
				if err := decodeLine(raw, &t); err != nil {
					return err
				}
				var k int
				var fo string
				json.Unmarshal(t[0], &k)
				json.Unmarshal(t[1], &fo)
				if k < 1 || lo+k-1 >= hi {
					return fmt.Errorf("accepted line for unknown trace %d", k)
				}
				acc[lo+k-1][fo] = true
				return nil
			})
			if err != nil {
				return nil, err
			}
		}
		os.RemoveAll(r.Dir)
	}
	return acc, nil
}

func foSet(m map[string]bool) string {
	var l []string
	for k, v := range m {
		if v {
			l = append(l, k)
		}
	}
	sort.Strings(l)
	return strings.Join(l, ",")
}

func pickN(rng *rand.Rand, recs []*Rec, n int) []*Rec {
	if n >= len(recs) {
		return recs
	}
	idx := rng.Perm(len(recs))[:n]
	sort.Ints(idx)
	out := make([]*Rec, 0, n)
	for _, i := range idx {
		out = append(out, recs[i])
	}
	return out
}

// Run is the C10 check.
func Run(c *core.Ctx, pool *gjs.Pool) {
	if !sort.StringsAreSorted(NamePool) {
		c.Infra(fmt.Errorf("NamePool must be ascending bytewise"))
		return
	}
	for _, p := range NamePairs {
		if !(p[0] < p[1]) {
			c.Infra(fmt.Errorf("NamePairs must be ascending"))
			return
		}
	}
	c.Assumef("file order is a parameter of the specification with the values ascending and descending by bytewise name (spec/Init.tla FileOrders); one value must explain every package of every program of the run")
	c.Assumef("programs observe themselves with println markers <tag, declaration, sum of the values of the references>; suspension is runtime.Gosched, a channel round trip through a goroutine started by the call, or a round trip through a server goroutine started earlier (package vp/rt, outside the modelled import DAG: it prints nothing when initialised)")
	c.Assumef("an implementation named by a linkname does not read package variables (reading a variable of a package that is not initialised yet is outside the property); linkname targets are never in package main")
	c.Assumef("linkname programs: the reference toolchain accepts pull-style linknames between user packages; where it builds the program it is used as guard (disagreement with the specification discards the scenario), otherwise the scenario is decided by the documented behaviour only; the three rejected forms have no guard")
	c.Assumef("the reference toolchain presents files in ascending name order (guard traces must be accepted with file order asc)")
	rng := rand.New(rand.NewSource(c.Seed))

	if rd := os.Getenv("VERIF_REPLAY"); rd != "" {
		replay(c, pool, rd)
		return
	}

	// 1. the model: enumerate, check the definitions, emit predictions
	ncodes := c.Pick(90, 600)
	if v := os.Getenv("C10_N"); v != "" { // development aid
		fmt.Sscanf(v, "%d", &ncodes)
	}
	codes := make([][]int, ncodes)
	for i := range codes {
		codes[i] = make([]int, 251)
		for j := range codes[i] {
			codes[i][j] = rng.Intn(10000)
		}
	}
	p := tlaParams{Fams: []string{"dag", "vars", "inits", "link", "bad", "code"}, Bnd: bounds{MaxPk: 4, Slots: 5}, Codes: codes}
	if v := os.Getenv("C10_FAMS"); v != "" { // development aid
		p.Fams = strings.Split(v, ",")
	}
	recs, res, err := runModel(c, p, time.Duration(c.Pick(15, 40))*time.Minute)
	if err != nil {
		c.Infra(fmt.Errorf("InitScen: %v", err))
		return
	}
	if !tlcx.MustComplete(c, res, nil, "InitScen") {
		return
	}
	c.Phase("tlc_scen")
	c.Set("checker_cmd", "tlc InitScen (INVARIANTS ScenOK FamiliesWF MachOK Emit): every program of the families and every decoded program, both file orders, every cross-package order; tlc InitTrace (INVARIANTS TInv Report) on the recorded traces")
	byFam := map[string][]*Rec{}
	illFormed := 0
	sens := 0
	for _, r := range recs {
		if !r.Wf {
			illFormed++
			continue
		}
		byFam[r.Fam] = append(byFam[r.Fam], r)
		if !r.Rejected && r.sensitive() {
			sens++
		}
	}
	fams := map[string]int{}
	for f, l := range byFam {
		fams[f] = len(l)
	}
	c.Set("model_programs_per_family", fams)
	c.Set("model_programs_sensitive_to_file_order", sens)
	c.Set("decoded_programs_ill_formed", illFormed)
	c.Set("exhaustive", c.Thorough() && os.Getenv("C10_FAMS") == "")
	c.Set("exhaustive_note", "TLC model-checks every program of the families dag, vars, inits, link, bad in both tiers; the thorough tier also builds and runs every one of them, the quick tier a VERIF_SEED sample of vars, inits and link; the code family is a VERIF_SEED sample of the full bounds in both tiers")

	// 2. which programs are built (families completely in the thorough tier, a
	// VERIF_SEED sample of the large ones in the quick tier)
	var sel []*Rec
	var link, bad []*Rec
	for _, r := range byFam["link"] {
		if r.Rejected {
			bad = append(bad, r)
		} else {
			link = append(link, r)
		}
	}
	sel = append(sel, byFam["dag"]...)
	sel = append(sel, pickN(rng, byFam["inits"], c.Pick(24, 1000))...)
	sel = append(sel, pickN(rng, link, c.Pick(24, 1000))...)
	sel = append(sel, bad...)
	sel = append(sel, pickN(rng, byFam["vars"], c.Pick(60, 100000))...)
	sel = append(sel, byFam["code"]...)
	// the shape of DESIGN.md F13 is always present: exported reference to a function,
	// called from a third package
	have := false
	for _, r := range sel {
		if r.Fam == "link" && strings.Contains(string(r.Key), `"tk":"func"`) && strings.Contains(string(r.Key), `"rex":true`) && !r.Rejected {
			have = true
		}
	}
	if !have {
		for _, r := range link {
			if strings.Contains(string(r.Key), `"tk":"func"`) && strings.Contains(string(r.Key), `"rex":true`) {
				sel = append(sel, r)
				break
			}
		}
	}
	seen := map[string]bool{}
	var uniq []*Rec
	for _, r := range sel {
		k := r.Scen.key()
		if !seen[k] {
			seen[k] = true
			uniq = append(uniq, r)
		}
	}
	c.Set("programs", len(uniq))
	decide(c, pool, uniq)
	c.Set("rule", "TLC enumerates completely: every import DAG of <= 4 packages x suspending deepest initialiser (dag), every placement of 3 variables in 2 files x every acyclic none/direct/through-function dependency per ordered pair x which variable has no initialiser (vars), every pair of file names x 0..2 init functions per file in 2 packages (inits), the linkname table target kind x receiver kind x exported reference x exported implementation x import direction x suspending implementation (link), the 3 rejected forms x direction x exported (bad); programs over the full bounds (<= 4 packages, <= 2 files, <= 3 vars + 1 var without initialiser + 3 funcs/methods + 1 linkname per package, <= 2 init per file, references, suspension points) are decoded from VERIF_SEED digit strings (code). All are model-checked (both file orders, all cross-package orders); dag, bad and code programs are all built and run, the other families completely in the thorough tier and as a VERIF_SEED sample in the quick tier. A case is one program compiled, run and compared; distinct = distinct programs; every one is non-trivial (at least a var, an init and main.main across >= 1 package). exhaustive refers to the enumerated families inside TLC")
}

// decide executes the programs and reports.
func decide(c *core.Ctx, pool *gjs.Pool, recs []*Rec) {
	ck := &checker{c: c, pool: pool}
	outs := make([]*outcome, len(recs))
	c.ParMap(len(recs), func(i int) { outs[i] = ck.execute(recs[i]) })
	c.Phase("build_run")
	// development aids that show the binding is not vacuous:
	//   C10_CORRUPT=js    swaps two markers of one recorded JS trace  -> VIOLATION expected
	//   C10_CORRUPT=spec  changes one predicted value of one program  -> exit 2: the allowed set and InitTrace disagree
	switch os.Getenv("C10_CORRUPT") {
	case "js":
		for _, o := range outs {
			if o.jsOK && len(o.jsEv) >= 2 && o.jsEv[0] != o.jsEv[1] {
				o.jsEv[0], o.jsEv[1] = o.jsEv[1], o.jsEv[0]
				o.both.JS.Lines[0], o.both.JS.Lines[1] = o.both.JS.Lines[1], o.both.JS.Lines[0]
				break
			}
		}
	case "spec":
		for _, o := range outs {
			if o.jsOK && !o.rec.Rejected {
				for _, ts := range [][][]Event{o.rec.Asc, o.rec.Desc} {
					for _, t := range ts {
						t[len(t)-1].A++
					}
				}
				break
			}
		}
	}

	// trace validation batch: every complete JS trace and every complete guard trace
	var tscens []*Scen
	var traces [][]Event
	for _, o := range outs {
		if o.rec.Rejected {
			continue
		}
		if o.both.BuildErr == nil && o.jsOK {
			o.jsK = len(traces)
			tscens = append(tscens, &o.rec.Scen)
			traces = append(traces, o.jsEv)
		}
		if o.both.NativeErr == "" && o.natOK {
			if o.jsK >= 0 && sameEvents(o.jsEv, o.natEv) {
				o.natK = o.jsK
			} else {
				o.natK = len(traces)
				tscens = append(tscens, &o.rec.Scen)
				traces = append(traces, o.natEv)
			}
		}
	}
	acc, err := validate(c, tscens, traces)
	if err != nil {
		c.Infra(err)
		return
	}
	c.Phase("tlc_trace")
	for _, o := range outs {
		if o.jsK >= 0 {
			o.jsFO = member(o.rec, o.jsEv)
			if foSet(o.jsFO) != foSet(acc[o.jsK]) {
				c.Infra(fmt.Errorf("specification inconsistent: scenario %d: the JS trace is in the allowed sets of {%s} but InitTrace accepts it for {%s}", o.rec.Sid, foSet(o.jsFO), foSet(acc[o.jsK])))
				return
			}
		}
		if o.natK >= 0 {
			o.natFO = member(o.rec, o.natEv)
			if foSet(o.natFO) != foSet(acc[o.natK]) {
				c.Infra(fmt.Errorf("specification inconsistent: scenario %d: the guard trace is in the allowed sets of {%s} but InitTrace accepts it for {%s}", o.rec.Sid, foSet(o.natFO), foSet(acc[o.natK])))
				return
			}
		}
	}
	c.Set("traces_validated_against_impl", func() int {
		n := 0
		for _, o := range outs {
			if o.jsK >= 0 {
				n++
			}
		}
		return n
	}())
	c.Set("guard_traces_validated", func() int {
		n := 0
		for _, o := range outs {
			if o.natK >= 0 {
				n++
			}
		}
		return n
	}())

	feat := map[string]int{}
	famRun := map[string]int{}
	discards, unguarded, linkGuarded, evals, sensRun := 0, 0, 0, 0, 0
	var needAsc, needDesc *outcome
	both := 0
	for _, o := range outs {
		rec := o.rec
		if be := o.both.BuildErr; be != nil {
			if _, ok := be.(*gjs.BuildError); !ok {
				c.Infra(fmt.Errorf("gopherjs build (infrastructure): %v", be))
				return
			}
		}
		if (o.both.BuildErr == nil && (o.both.JS.End == "timeout" || o.both.JS.End == "fail")) ||
			(o.both.NativeErr == "" && !rec.Rejected && (o.both.Native.End == "timeout" || o.both.Native.End == "fail")) {
			c.Infra(fmt.Errorf("scenario %d: a run timed out or could not be observed three times (js end=%s %s, native end=%s %s); not a verdict",
				rec.Sid, o.both.JS.End, o.both.JS.Msg, o.both.Native.End, o.both.Native.Msg))
			return
		}
		// --- rejected forms: decided by the documented behaviour only
		if rec.Rejected {
			evals++
			famRun["bad"]++
			c.Distinct(rec.Scen.key())
			for k := range rec.Scen.features() {
				feat[k]++
			}
			badKind := ""
			for _, d := range rec.Scen.Decls {
				if d.Kind == "lref" {
					badKind = d.Bad
				}
			}
			be, _ := o.both.BuildErr.(*gjs.BuildError)
			switch {
			case be == nil:
				ck.report(o, []string{"unsupported_linkname_accepted:" + badKind},
					fmt.Sprintf("unsupported use of go:linkname (%s) is not rejected at build time; the program ran: %s end=%s %s", badKind, strings.Join(o.both.JS.Lines, " | "), o.both.JS.End, o.both.JS.Msg),
					nil, map[string]string{"expected.txt": "build error mentioning go:linkname\n"})
			case be.Panic:
				ck.report(o, []string{"compiler_panic"}, "compiler internal error on an unsupported use of go:linkname ("+badKind+"): "+firstLineOf(be.Error()), nil, map[string]string{"expected.txt": "build error mentioning go:linkname\n"})
			case !strings.Contains(be.Error(), "go:linkname"):
				ck.report(o, []string{"unsupported_linkname_other_error:" + badKind}, "the build fails, but not with a diagnostic about the go:linkname directive ("+badKind+"): "+firstLineOf(be.Error()), nil, map[string]string{"expected.txt": "build error mentioning go:linkname\n"})
			}
			continue
		}
		// --- guard
		isLink := rec.Scen.hasLink()
		switch {
		case o.both.NativeErr != "":
			if isLink {
				o.guard = "none"
				unguarded++
			} else {
				o.guard = "discard"
				c.Sample(map[string]any{"discarded": rec.Sid, "fam": rec.Fam, "native_error": tail(o.both.NativeErr, 400)})
			}
		case o.natOK && o.natFO["asc"]:
			o.guard = "ok"
			if isLink {
				linkGuarded++
			}
		default:
			o.guard = "discard"
			want, n, _ := closest(rec, o.natEv, "asc")
			c.Sample(map[string]any{"discarded": rec.Sid, "fam": rec.Fam, "native_end": o.both.Native.End, "native_lines": o.both.Native.Lines, "agrees_up_to": n, "predicted": linesOf(want)})
		}
		if o.guard == "discard" {
			discards++
			continue
		}
		evals++
		famRun[rec.Fam]++
		c.Distinct(rec.Scen.key())
		for k := range rec.Scen.features() {
			feat[k]++
		}
		if rec.sensitive() {
			sensRun++
		}
		// --- the compiler under test
		if be, _ := o.both.BuildErr.(*gjs.BuildError); be != nil {
			key := "compile_fail"
			if be.Panic {
				key = "compiler_panic"
			}
			want, _, _ := closest(rec, nil, "desc")
			ck.report(o, []string{key}, "the compiler fails on a legal program (the reference toolchain builds and runs it as predicted): "+firstLineOf(be.Error()), want, nil)
			continue
		}
		if o.jsK >= 0 && len(o.jsFO) > 0 {
			switch {
			case o.jsFO["asc"] && o.jsFO["desc"]:
				both++
			case o.jsFO["asc"]:
				if needAsc == nil {
					needAsc = o
				}
			default:
				if needDesc == nil {
					needDesc = o
				}
			}
			continue
		}
		want, n, fo := closest(rec, o.jsEv, "desc")
		got, exp := "<end>", "<end>"
		if n < len(o.jsEv) {
			got = o.both.JS.Lines[n]
		} else if o.both.JS.End != "exit" {
			got = o.both.JS.End + " " + o.both.JS.Msg
		}
		if n < len(want) {
			exp = want[n].Line()
		}
		ck.report(o, classify(rec, o.both.JS, o.jsEv),
			fmt.Sprintf("%s program %d: the marker trace is accepted under no file order; it agrees with the closest allowed trace (file order %s) for %d markers, then prints %q where %q is predicted (end=%s %s)",
				rec.Fam, rec.Sid, fo, n, got, exp, o.both.JS.End, o.both.JS.Msg), want, nil)
	}
	// --- one file order must explain the whole run
	explain := []string{}
	switch {
	case needAsc != nil && needDesc != nil:
		want, _, _ := closest(needAsc.rec, needAsc.jsEv, "desc")
		extra := needDesc.prog.ReplayFiles("prog_needing_desc")
		ck.report(needAsc, []string{"no_single_file_order"},
			fmt.Sprintf("no single file order explains the run: program %d is only explained by ascending file names, program %d only by descending ones", needAsc.rec.Sid, needDesc.rec.Sid),
			want, extra)
	case needAsc != nil:
		explain = []string{"asc"}
	case needDesc != nil:
		explain = []string{"desc"}
	default:
		explain = []string{"asc", "desc"}
	}
	c.Set("file_orders_explaining_the_run", explain)
	c.Set("programs_accepted_under_both_file_orders", both)
	c.Set("programs_run_sensitive_to_file_order", sensRun)
	c.Set("evaluations", evals)
	c.Set("programs_run_per_family", famRun)
	c.Set("spec_guard_discards", discards)
	c.Set("linkname_programs_guarded_by_reference_toolchain", linkGuarded)
	c.Set("linkname_programs_without_guard", unguarded)
	c.Set("features", feat)
	if discards > 0 {
		fmt.Printf("note: %d programs discarded because the reference toolchain disagrees with the specification\n", discards)
	}
	n := 0
	for i, o := range outs {
		if i%(len(outs)/4+1) == 0 && n < 4 {
			n++
			c.Sample(map[string]any{"fam": o.rec.Fam, "sid": o.rec.Sid, "packages": o.rec.Scen.Np, "decls": len(o.rec.Scen.Decls), "orders": len(o.rec.Orders),
				"observed": o.both.JS.Lines, "accepted_under": foSet(o.jsFO), "guard": o.guard})
		}
	}
}

// replay re-decides one recorded scenario (scenario.json) through the model and
// the compiler.
func replay(c *core.Ctx, pool *gjs.Pool, dir string) {
	b, err := os.ReadFile(filepath.Join(dir, "scenario.json"))
	if err != nil {
		c.Infra(err)
		return
	}
	var s Scen
	if err := json.Unmarshal(b, &s); err != nil {
		c.Infra(err)
		return
	}
	recs, res, err := runModel(c, tlaParams{Fams: []string{"given"}, Bnd: bounds{MaxPk: 4, Slots: 5}, Given: []Scen{s}}, 10*time.Minute)
	if err != nil {
		c.Infra(err)
		return
	}
	if !tlcx.MustComplete(c, res, nil, "InitScen (replay)") {
		return
	}
	c.Set("programs", len(recs))
	decide(c, pool, recs)
	c.Set("rule", "replay of one recorded scenario")
}
