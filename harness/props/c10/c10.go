// Package c10 decides C10 (see DESIGN.md section 4). Not built yet.
package c10
