// Package tlcx runs TLC (and SANY) on the specification in /verif/spec inside a
// scratch copy, under a timeout, and parses its statistics.
package tlcx

import (
	"bufio"
	"context"
	"encoding/json"
	"fmt"
	"os"
	"os/exec"
	"path/filepath"
	"regexp"
	"strconv"
	"strings"
	"time"

	"verif/core"
)

const jar = "/opt/veriftools/tla/tla2tools.jar:/opt/veriftools/tla/CommunityModules-deps.jar"

// Opts configures one TLC run.
type Opts struct {
	Module     string            // module name (file Module.tla in spec/)
	Cfg        string            // text of the .cfg (written as Module_run.cfg); or
	CfgFile    string            // name of a cfg file in spec/cfg
	Files      map[string]string // extra files written into the run directory (traces, constants)
	Workers    int               // default 8
	Timeout    time.Duration     // default 10 min
	DFS        bool              // depth-first state queue (trace validation)
	SimNum     int               // >0: -simulate num=SimNum
	Depth      int               // -depth
	Seed       int64
	HeapMB     int // default 4096
	Coverage   bool
	NoDeadlock bool // -deadlock (disable deadlock checking)
}

// Result is what TLC reported.
type Result struct {
	Dir       string
	Output    string
	Generated int
	Distinct  int
	Completed bool   // "Model checking completed. No error has been found."
	Violated  string // name of the violated invariant, or "deadlock", "assumption", "error"
	TimedOut  bool
	Wall      time.Duration
	ZeroCov   []string // coverage lines with count 0 (when Coverage)
}

var (
	reStates = regexp.MustCompile(`(\d+) states generated, (\d+) distinct states found`)
	reSim    = regexp.MustCompile(`The number of states generated: (\d+)`)
	reInv    = regexp.MustCompile(`Invariant (\S+) is violated`)
)

// Run executes TLC. dir is created under c.Scratch.
func Run(c *core.Ctx, o Opts) (*Result, error) {
	dir, err := os.MkdirTemp(c.Scratch, "tlc-"+o.Module+"-")
	if err != nil {
		return nil, err
	}
	specs, _ := filepath.Glob(filepath.Join(core.Root, "spec", "*.tla"))
	for _, s := range specs {
		b, err := os.ReadFile(s)
		if err != nil {
			return nil, err
		}
		if err := os.WriteFile(filepath.Join(dir, filepath.Base(s)), b, 0o644); err != nil {
			return nil, err
		}
	}
	cfgName := o.Module + "_run.cfg"
	cfg := o.Cfg
	if o.CfgFile != "" {
		b, err := os.ReadFile(filepath.Join(core.Root, "spec", "cfg", o.CfgFile))
		if err != nil {
			return nil, err
		}
		cfg = string(b)
	}
	if err := os.WriteFile(filepath.Join(dir, cfgName), []byte(cfg), 0o644); err != nil {
		return nil, err
	}
	for n, content := range o.Files {
		if err := os.WriteFile(filepath.Join(dir, n), []byte(content), 0o644); err != nil {
			return nil, err
		}
	}
	if o.Workers == 0 {
		o.Workers = 8
	}
	if o.Timeout == 0 {
		o.Timeout = 10 * time.Minute
	}
	if o.HeapMB == 0 {
		o.HeapMB = 4096
	}
	args := []string{"-XX:+UseParallelGC", fmt.Sprintf("-Xmx%dm", o.HeapMB), "-Xss64m"}
	if o.DFS {
		args = append(args, "-Dtlc2.tool.queue.IStateQueue=StateDeque")
	}
	args = append(args, "-cp", jar, "tlc2.TLC", "-config", cfgName, "-workers", strconv.Itoa(o.Workers),
		"-metadir", filepath.Join(dir, "meta"), "-noGenerateSpecTE")
	if o.SimNum > 0 {
		args = append(args, "-simulate", fmt.Sprintf("num=%d", o.SimNum))
	}
	if o.Depth > 0 {
		args = append(args, "-depth", strconv.Itoa(o.Depth))
	}
	if o.Seed != 0 {
		args = append(args, "-seed", strconv.FormatInt(o.Seed, 10))
	}
	if o.Coverage {
		args = append(args, "-coverage", "1")
	}
	if o.NoDeadlock {
		args = append(args, "-deadlock")
	}
	args = append(args, o.Module)
	ctx, cancel := context.WithTimeout(context.Background(), o.Timeout)
	defer cancel()
	cmd := exec.CommandContext(ctx, "java", args...)
	cmd.Dir = dir
	cmd.Env = append(os.Environ(), "JAVA_TOOL_OPTIONS=")
	t0 := time.Now()
	out, runErr := cmd.CombinedOutput()
	r := &Result{Dir: dir, Output: string(out), Wall: time.Since(t0)}
	if ctx.Err() == context.DeadlineExceeded {
		r.TimedOut = true
	}
	for _, m := range reStates.FindAllStringSubmatch(r.Output, -1) {
		r.Generated, _ = strconv.Atoi(m[1])
		r.Distinct, _ = strconv.Atoi(m[2])
	}
	if m := reSim.FindStringSubmatch(r.Output); m != nil {
		r.Generated, _ = strconv.Atoi(m[1])
		if r.Distinct == 0 {
			r.Distinct = r.Generated
		}
	}
	switch {
	case strings.Contains(r.Output, "Model checking completed. No error has been found."):
		r.Completed = true
	case reInv.MatchString(r.Output):
		r.Violated = reInv.FindStringSubmatch(r.Output)[1]
	case strings.Contains(r.Output, "Deadlock reached"):
		r.Violated = "deadlock"
	case strings.Contains(r.Output, "Assumption") && strings.Contains(r.Output, "is false"):
		r.Violated = "assumption"
	case strings.Contains(r.Output, "Action property") && strings.Contains(r.Output, "is violated"):
		r.Violated = "action-property"
	case strings.Contains(r.Output, "Temporal properties were violated"):
		r.Violated = "temporal"
	case o.SimNum > 0 && runErr == nil:
		r.Completed = true
	case strings.Contains(r.Output, "Error:") || runErr != nil:
		if !r.TimedOut {
			r.Violated = "error"
		}
	}
	if o.Coverage {
		sc := bufio.NewScanner(strings.NewReader(r.Output))
		for sc.Scan() {
			l := sc.Text()
			if strings.HasSuffix(l, ": 0") && strings.Contains(l, "line") {
				r.ZeroCov = append(r.ZeroCov, strings.TrimSpace(l))
			}
		}
	}
	c.Add("states", r.Distinct)
	c.Add("transitions", r.Generated)
	c.Add("tlc_runs", 1)
	return r, nil
}

// MustComplete turns any outcome other than a completed run into an
// infrastructure error (a model-level failure is never a violation of the code
// by itself).
func MustComplete(c *core.Ctx, r *Result, err error, what string) bool {
	if err != nil {
		c.Infra(fmt.Errorf("%s: %v", what, err))
		return false
	}
	if !r.Completed {
		c.Infra(fmt.Errorf("%s: TLC did not complete (violated=%q timeout=%v)\n%s", what, r.Violated, r.TimedOut, Tail(r.Output, 60)))
		return false
	}
	return true
}

// Tail returns the last n lines.
func Tail(s string, n int) string {
	ls := strings.Split(strings.TrimRight(s, "\n"), "\n")
	if len(ls) > n {
		ls = ls[len(ls)-n:]
	}
	return strings.Join(ls, "\n")
}

// ReadNDJSON reads a file of JSON lines written by CSVWrite("%1$s", <<ToJson(rec)>>, f):
// each line is the JSON text of a record (ToJson output is not quoted again by
// CSVWrite).
func ReadNDJSON(path string, each func(raw json.RawMessage) error) error {
	f, err := os.Open(path)
	if err != nil {
		return err
	}
	defer f.Close()
	sc := bufio.NewScanner(f)
	sc.Buffer(make([]byte, 1<<20), 1<<26)
	for sc.Scan() {
		b := sc.Bytes()
		if len(b) == 0 {
			continue
		}
		cp := make([]byte, len(b))
		copy(cp, b)
		if err := each(json.RawMessage(cp)); err != nil {
			return err
		}
	}
	return sc.Err()
}
