package gjs

import (
	"encoding/json"
	"fmt"
	"os"
	"path/filepath"
	"strings"
	"time"
)

// Script is the scheduling script understood by js/sched.js and js/runner.js.
type Script struct {
	Rand         []float64 `json:"rand,omitempty"`
	Now          []int     `json:"now,omitempty"`
	Timers       []int     `json:"timers,omitempty"`
	NowDefault   int       `json:"nowDefault,omitempty"`
	TimerDefault int       `json:"timerDefault,omitempty"`
}

// Job is one execution requested from js/runner.js.
type Job struct {
	Args     []string `json:"args"`
	Script   *Script  `json:"script,omitempty"`
	MaxSteps int      `json:"maxSteps,omitempty"`
}

type multiRes struct {
	Out     string `json:"out"`
	End     string `json:"end"`
	Code    int    `json:"code"`
	ErrName string `json:"errName"`
	ErrMsg  string `json:"errMsg"`
}

// Root of /verif (for js/runner.js); set by the main program.
var VerifRoot = "/verif"

// NodeMulti executes the emitted file once per job inside one Node process
// (js/runner.js: fresh vm context per job, virtual event loop, scripted
// scheduling) and returns the classified observations.
func NodeMulti(js string, jobs []Job, timeout time.Duration) ([]Obs, error) {
	if r := os.Getenv("VERIF_ROOT"); r != "" {
		VerifRoot = r
	}
	jf, err := os.CreateTemp(filepath.Dir(js), "jobs-*.json")
	if err != nil {
		return nil, err
	}
	defer os.Remove(jf.Name())
	if err := json.NewEncoder(jf).Encode(jobs); err != nil {
		return nil, err
	}
	jf.Close()
	r := runCmd(timeout, filepath.Dir(js), nil, "node", "--stack-size=4000", filepath.Join(VerifRoot, "js", "runner.js"), js, jf.Name())
	if r.TimedOut || r.Err != nil || r.ExitCode != 0 {
		return nil, fmt.Errorf("runner.js failed (timeout=%v exit=%d err=%v): %s", r.TimedOut, r.ExitCode, r.Err, tail(r.Out, 2000))
	}
	lines := strings.Split(strings.TrimRight(r.Out, "\n"), "\n")
	if len(lines) != len(jobs) {
		return nil, fmt.Errorf("runner.js returned %d results for %d jobs: %s", len(lines), len(jobs), tail(r.Out, 2000))
	}
	obs := make([]Obs, len(jobs))
	for i, l := range lines {
		var m multiRes
		if err := json.Unmarshal([]byte(l), &m); err != nil {
			return nil, fmt.Errorf("runner.js result %d: %v", i, err)
		}
		o := Obs{Raw: m.Out}
		for _, ol := range strings.Split(m.Out, "\n") {
			ol = strings.TrimRight(ol, "\r")
			if ol == "fatal error: all goroutines are asleep - deadlock!" {
				o.End = "deadlock"
				break
			}
			if ol != "" {
				o.Lines = append(o.Lines, ol)
			}
		}
		if o.End == "" {
			switch m.End {
			case "exit":
				o.End = "exit"
			case "exitcode":
				if m.Code == 0 {
					o.End = "exit"
				} else {
					o.End = "fail"
					o.Msg = fmt.Sprintf("exit code %d", m.Code)
				}
			case "crash":
				if m.ErrName == "Error" {
					o.End = "panic"
					o.Msg = m.ErrMsg
				} else {
					o.End = "jserror"
					o.Msg = m.ErrName + ": " + m.ErrMsg
				}
			case "timeout":
				o.End = "timeout"
			default:
				o.End = "fail"
				o.Msg = m.End
			}
		}
		obs[i] = o
	}
	return obs, nil
}

func tail(s string, n int) string {
	if len(s) > n {
		return s[len(s)-n:]
	}
	return s
}
