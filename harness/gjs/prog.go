package gjs

import (
	"fmt"
	"os"
	"path/filepath"
	"regexp"
	"sort"
	"strings"
	"sync/atomic"
	"time"
)

// Prog is a scenario program: a module with a main package in its root and
// optional sub-packages. File names are relative to the module root.
type Prog struct {
	Module string // default "vp"
	Files  map[string]string
}

// Obs is the normalised observable behaviour of one execution: the printed
// lines and the way the program ended.
type Obs struct {
	Lines []string
	End   string // exit | panic | deadlock | timeout | jserror | fail
	Msg   string // panic message / JS error line
	Raw   string
}

func (o Obs) String() string {
	return fmt.Sprintf("%s|%s|%s", strings.Join(o.Lines, "\n"), o.End, o.Msg)
}

// Same compares printed lines and termination kind (not the message wording).
func (o Obs) Same(p Obs) bool {
	if o.End != p.End || len(o.Lines) != len(p.Lines) {
		return false
	}
	for i := range o.Lines {
		if o.Lines[i] != p.Lines[i] {
			return false
		}
	}
	return true
}

var reJSCrash = regexp.MustCompile(`^(/|[A-Za-z]:).*\.js:\d+$`)

// ClassifyNode normalises a Node run of GopherJS output.
func ClassifyNode(r RunResult) Obs {
	o := Obs{Raw: r.Out}
	if r.TimedOut {
		o.End = "timeout"
	}
	lines := strings.Split(r.Out, "\n")
	for i := 0; i < len(lines); i++ {
		l := strings.TrimRight(lines[i], "\r")
		if l == "fatal error: all goroutines are asleep - deadlock!" {
			o.End = "deadlock"
			return o
		}
		if reJSCrash.MatchString(l) {
			// node's crash dump: source line, caret, blank, then "<Name>: message"
			for j := i + 1; j < len(lines); j++ {
				t := strings.TrimSpace(lines[j])
				if t == "" || t == "^" || strings.HasPrefix(lines[j], " ") || strings.HasPrefix(lines[j], "\t") {
					continue
				}
				o.Msg = t
				break
			}
			if strings.HasPrefix(o.Msg, "Error: ") {
				o.End = "panic"
				o.Msg = strings.TrimPrefix(o.Msg, "Error: ")
			} else {
				o.End = "jserror"
			}
			return o
		}
		if l != "" {
			o.Lines = append(o.Lines, l)
		}
	}
	if o.End == "" {
		if r.ExitCode == 0 && r.Err == nil {
			o.End = "exit"
		} else {
			o.End = "fail"
			o.Msg = fmt.Sprintf("exit code %d %v", r.ExitCode, r.Err)
		}
	}
	return o
}

// ClassifyNative normalises a native run.
func ClassifyNative(r RunResult) Obs {
	o := Obs{Raw: r.Out}
	if r.TimedOut {
		o.End = "timeout"
	}
	lines := strings.Split(r.Out, "\n")
	for _, l := range lines {
		l = strings.TrimRight(l, "\r")
		if l == "fatal error: all goroutines are asleep - deadlock!" {
			o.End = "deadlock"
			return o
		}
		if strings.HasPrefix(l, "panic: ") {
			o.End = "panic"
			o.Msg = strings.TrimPrefix(l, "panic: ")
			if i := strings.Index(o.Msg, " [recovered]"); i >= 0 {
				o.Msg = o.Msg[:i]
			}
			return o
		}
		if strings.HasPrefix(l, "fatal error: ") {
			o.End = "fail"
			o.Msg = l
			return o
		}
		if l != "" {
			o.Lines = append(o.Lines, l)
		}
	}
	if o.End == "" {
		if r.ExitCode == 0 && r.Err == nil {
			o.End = "exit"
		} else {
			o.End = "fail"
			o.Msg = fmt.Sprintf("exit code %d %v", r.ExitCode, r.Err)
		}
	}
	return o
}

var progSeq int64

// Materialise writes the program into a fresh directory under scratch.
func (p Prog) Materialise(scratch string) (string, error) {
	n := atomic.AddInt64(&progSeq, 1)
	dir := filepath.Join(scratch, fmt.Sprintf("prog%06d", n))
	mod := p.Module
	if mod == "" {
		mod = "vp"
	}
	if err := WriteModule(dir, mod); err != nil {
		return "", err
	}
	for name, content := range p.Files {
		fp := filepath.Join(dir, name)
		if err := os.MkdirAll(filepath.Dir(fp), 0o755); err != nil {
			return "", err
		}
		if err := os.WriteFile(fp, []byte(content), 0o644); err != nil {
			return "", err
		}
	}
	return dir, nil
}

// ReplayFiles returns the program's files prefixed for a replay directory.
func (p Prog) ReplayFiles(prefix string) map[string]string {
	m := map[string]string{}
	names := make([]string, 0, len(p.Files))
	for n := range p.Files {
		names = append(names, n)
	}
	sort.Strings(names)
	for _, n := range names {
		m[filepath.Join(prefix, n)] = p.Files[n]
	}
	return m
}

// Both holds the GopherJS observation and the native (guard) observation.
type Both struct {
	Dir       string
	BuildErr  error // *BuildError: compiler verdict; other: infrastructure
	JS        Obs
	NativeErr string // non-empty: the reference toolchain rejected the program
	Native    Obs
}

// RunBoth builds the program with GopherJS (in a pool worker) and natively,
// runs both and classifies the observations. The directory is removed unless
// keep is set.
func (pl *Pool) RunBoth(scratch string, p Prog, o Opts, timeout time.Duration, native bool, keep bool) Both {
	var b Both
	dir, err := p.Materialise(scratch)
	if err != nil {
		b.BuildErr = err
		return b
	}
	b.Dir = dir
	if !keep {
		defer os.RemoveAll(dir)
	}
	out := filepath.Join(dir, "out.js")
	if err := pl.Build(dir, out, o); err != nil {
		b.BuildErr = err
	} else {
		b.JS = ClassifyNode(Node(out, timeout, "", nil))
	}
	if native {
		bin := filepath.Join(dir, "native.bin")
		r := NativeBuild(dir, bin)
		if r.ExitCode != 0 || r.Err != nil || r.TimedOut {
			b.NativeErr = r.Out
			if b.NativeErr == "" {
				b.NativeErr = fmt.Sprint("native build failed: ", r.Err)
			}
		} else {
			b.Native = ClassifyNative(NativeRun(bin, timeout, nil))
		}
	}
	return b
}
