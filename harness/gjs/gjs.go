// Package gjs builds Go programs with the GopherJS compiler taken from the
// working tree of /repo (as a library, through the go.mod replace directive),
// runs the emitted JavaScript under Node and runs the same program natively
// (the specification guard).
package gjs

import (
	"bytes"
	"context"
	"errors"
	"fmt"
	"net/http"
	"os"
	"os/exec"
	"path/filepath"
	"strings"
	"sync"
	"time"

	gbuild "github.com/gopherjs/gopherjs/build"
	"github.com/gopherjs/gopherjs/compiler"
	"github.com/gopherjs/gopherjs/compiler/gopherjspkg"
)

// Repo is the path of the gopherjs working tree the harness was linked against.
var Repo = "/repo"

var initOnce sync.Once

// Init registers the working tree as the source of the js and nosync packages
// (what embed.go does for the CLI).
func Init() {
	initOnce.Do(func() {
		if r := os.Getenv("VERIF_REPO"); r != "" {
			Repo = r
		}
		os.Setenv("GOPHERJS_SKIP_VERSION_CHECK", "true")
		os.Setenv("GOFLAGS", "-mod=mod")
		os.Setenv("GOPROXY", "off")
		os.Setenv("GOSUMDB", "off")
		os.Setenv("GOTOOLCHAIN", "local")
		gopherjspkg.RegisterFS(http.Dir(Repo))
	})
}

// Opts are the build options that matter to the checks.
type Opts struct {
	Minify  bool
	Tags    []string
	MapFile bool
	// AllAlive links with dead-code elimination defeated: every declaration of
	// every archive is marked alive before the program is written.
	AllAlive bool
	// Inject is JavaScript inserted between the prelude and the first package
	// (run-time tracing wrappers); empty = none.
	Inject string
}

// BuildError wraps a compiler failure; Panic is set when the compiler panicked
// (an internal error rather than a diagnostic).
type BuildError struct {
	Err   error
	Panic bool
}

func (e *BuildError) Error() string { return e.Err.Error() }

// Build compiles the main package in dir (all .go files in it, sub-packages
// reachable through the module in which dir lives) and writes out.
func Build(dir, out string, o Opts) (err error) {
	Init()
	defer func() {
		if r := recover(); r != nil {
			err = &BuildError{Err: fmt.Errorf("compiler panic: %v", r), Panic: true}
		}
	}()
	s, e := gbuild.NewSession(&gbuild.Options{NoCache: true, Minify: o.Minify, BuildTags: o.Tags, CreateMapFile: o.MapFile, Quiet: true})
	if e != nil {
		return &BuildError{Err: e}
	}
	pkg, e := s.XContext().Import(".", dir, 0)
	if e != nil {
		return &BuildError{Err: e}
	}
	archive, e := s.BuildProject(pkg)
	if e != nil {
		return &BuildError{Err: e}
	}
	if !o.AllAlive && o.Inject == "" {
		if e := s.WriteCommandPackage(archive, out); e != nil {
			return &BuildError{Err: e}
		}
		return nil
	}
	deps, e := compiler.ImportDependencies(archive, s.ImportResolverFor(""))
	if e != nil {
		return &BuildError{Err: e}
	}
	if o.AllAlive {
		for _, a := range deps {
			for _, d := range a.Declarations {
				d.Dce().SetAsAlive()
			}
		}
	}
	var buf bytes.Buffer
	if e := compiler.WriteProgramCode(deps, compiler.DefaultFilter(&buf), s.GoRelease()); e != nil {
		return &BuildError{Err: e}
	}
	code := buf.Bytes()
	if o.Inject != "" {
		code, e = InjectJS(code, o.Inject)
		if e != nil {
			return e
		}
	}
	return os.WriteFile(out, code, 0o644)
}

// ErrNoAnchor is returned when the emitted file has no `$packages["` line.
var ErrNoAnchor = errors.New("gjs: anchor `$packages[\"` not found in emitted JavaScript")

// InjectJS inserts js before the first line that starts with `$packages["`.
func InjectJS(code []byte, js string) ([]byte, error) {
	idx := -1
	if bytes.HasPrefix(code, []byte(`$packages["`)) {
		idx = 0
	} else if i := bytes.Index(code, []byte("\n$packages[\"")); i >= 0 {
		idx = i + 1
	}
	if idx < 0 {
		return nil, ErrNoAnchor
	}
	var b bytes.Buffer
	b.Write(code[:idx])
	b.WriteString(js)
	if !strings.HasSuffix(js, "\n") {
		b.WriteByte('\n')
	}
	b.Write(code[idx:])
	return b.Bytes(), nil
}

// RunResult is what one execution showed.
type RunResult struct {
	Out      string // stdout+stderr interleaved as written
	ExitCode int
	TimedOut bool
	Err      error // failure to start etc.
}

// Lines returns the non-empty output lines.
func (r RunResult) Lines() []string {
	var ls []string
	for _, l := range strings.Split(r.Out, "\n") {
		l = strings.TrimRight(l, "\r")
		if l != "" {
			ls = append(ls, l)
		}
	}
	return ls
}

type syncBuf struct {
	mu sync.Mutex
	b  bytes.Buffer
}

func (s *syncBuf) Write(p []byte) (int, error) {
	s.mu.Lock()
	defer s.mu.Unlock()
	return s.b.Write(p)
}

func runCmd(timeout time.Duration, dir string, env []string, name string, args ...string) RunResult {
	ctx, cancel := context.WithTimeout(context.Background(), timeout)
	defer cancel()
	cmd := exec.CommandContext(ctx, name, args...)
	cmd.Dir = dir
	cmd.Env = append(os.Environ(), env...)
	var sb syncBuf
	cmd.Stdout = &sb
	cmd.Stderr = &sb
	cmd.WaitDelay = 2 * time.Second
	err := cmd.Run()
	res := RunResult{Out: sb.b.String()}
	if ctx.Err() == context.DeadlineExceeded {
		res.TimedOut = true
		res.ExitCode = -1
		return res
	}
	if err != nil {
		var ee *exec.ExitError
		if errors.As(err, &ee) {
			res.ExitCode = ee.ExitCode()
		} else {
			res.Err = err
			res.ExitCode = -1
		}
	}
	return res
}

// Node runs a JavaScript file under Node. preload (may be empty) is passed with -r.
func Node(js string, timeout time.Duration, preload string, env []string, args ...string) RunResult {
	a := []string{"--stack-size=4000"}
	if preload != "" {
		a = append(a, "-r", preload)
	}
	a = append(a, js)
	a = append(a, args...)
	return runCmd(timeout, filepath.Dir(js), env, "node", a...)
}

// NodeCheck runs `node --check` (syntax only).
func NodeCheck(js string) RunResult {
	return runCmd(60*time.Second, filepath.Dir(js), nil, "node", "--check", js)
}

// NativeBuild builds the main package in dir with the reference toolchain into bin.
// The directory must be inside a module whose go.mod says `go 1.20` (pre-1.22
// loop variable semantics, like GopherJS).
func NativeBuild(dir, bin string) RunResult {
	return runCmd(5*time.Minute, dir, []string{"GOFLAGS=-mod=mod", "GOPROXY=off", "GOSUMDB=off", "GOTOOLCHAIN=local", "GOOS=linux", "GOARCH=amd64", "CGO_ENABLED=0"},
		"go", "build", "-o", bin, ".")
}

// NativeRun runs a binary produced by NativeBuild.
func NativeRun(bin string, timeout time.Duration, env []string, args ...string) RunResult {
	return runCmd(timeout, filepath.Dir(bin), env, bin, args...)
}

// WriteModule creates dir/go.mod for a scenario program.
func WriteModule(dir, module string) error {
	if err := os.MkdirAll(dir, 0o755); err != nil {
		return err
	}
	gomod := "module " + module + "\n\ngo 1.20\n\nrequire github.com/gopherjs/gopherjs v0.0.0\n\nreplace github.com/gopherjs/gopherjs => " + Repo + "\n"
	if err := os.WriteFile(filepath.Join(dir, "go.mod"), []byte(gomod), 0o644); err != nil {
		return err
	}
	sum, err := os.ReadFile(filepath.Join(Repo, "go.sum"))
	if err == nil {
		_ = os.WriteFile(filepath.Join(dir, "go.sum"), sum, 0o644)
	}
	return nil
}
