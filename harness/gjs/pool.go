package gjs

import (
	"bufio"
	"encoding/json"
	"fmt"
	"io"
	"os"
	"os/exec"
	"sync"
)

// Builds run in worker sub-processes: the compiler resolves module-mode imports
// relative to the process working directory, and a worker that dies (compiler
// crash beyond recover) must not take the check down.

type job struct {
	Dir  string `json:"dir"`
	Out  string `json:"out"`
	Opts Opts   `json:"opts"`
}

type jobResult struct {
	Err   string `json:"err"`
	Panic bool   `json:"panic"`
}

// MaybeWorker turns the process into a build worker when invoked as
// `vcheck __worker`. Call first in main.
func MaybeWorker() {
	if len(os.Args) < 2 || os.Args[1] != "__worker" {
		return
	}
	Init()
	in := bufio.NewReaderSize(os.Stdin, 1<<20)
	enc := json.NewEncoder(os.Stdout)
	for {
		line, err := in.ReadBytes('\n')
		if len(line) > 0 {
			var j job
			if e := json.Unmarshal(line, &j); e != nil {
				enc.Encode(jobResult{Err: "bad job: " + e.Error()})
				continue
			}
			var res jobResult
			if e := os.Chdir(j.Dir); e != nil {
				res.Err = e.Error()
			} else if e := Build(j.Dir, j.Out, j.Opts); e != nil {
				res.Err = e.Error()
				if be, ok := e.(*BuildError); ok {
					res.Panic = be.Panic
				}
			}
			enc.Encode(res)
		}
		if err != nil {
			os.Exit(0)
		}
	}
}

type worker struct {
	cmd *exec.Cmd
	in  io.WriteCloser
	out *bufio.Reader
}

// Pool is a set of build workers.
type Pool struct {
	mu   sync.Mutex
	free chan *worker
	n    int
}

// NewPool starts n workers lazily.
func NewPool(n int) *Pool {
	p := &Pool{free: make(chan *worker, n), n: n}
	for i := 0; i < n; i++ {
		p.free <- nil
	}
	return p
}

func startWorker() (*worker, error) {
	exe, err := os.Executable()
	if err != nil {
		return nil, err
	}
	cmd := exec.Command(exe, "__worker")
	cmd.Stderr = io.Discard
	in, err := cmd.StdinPipe()
	if err != nil {
		return nil, err
	}
	out, err := cmd.StdoutPipe()
	if err != nil {
		return nil, err
	}
	if err := cmd.Start(); err != nil {
		return nil, err
	}
	return &worker{cmd: cmd, in: in, out: bufio.NewReaderSize(out, 1<<20)}, nil
}

// Build compiles dir to out in a worker. A *BuildError is a compiler verdict;
// any other error is infrastructure.
func (p *Pool) Build(dir, out string, o Opts) error {
	w := <-p.free
	var err error
	if w == nil {
		w, err = startWorker()
		if err != nil {
			p.free <- nil
			return fmt.Errorf("start worker: %w", err)
		}
	}
	b, _ := json.Marshal(job{Dir: dir, Out: out, Opts: o})
	if _, err = w.in.Write(append(b, '\n')); err == nil {
		var line []byte
		line, err = w.out.ReadBytes('\n')
		if err == nil {
			var r jobResult
			if e := json.Unmarshal(line, &r); e != nil {
				err = e
			} else {
				p.free <- w
				if r.Err != "" {
					return &BuildError{Err: fmt.Errorf("%s", r.Err), Panic: r.Panic}
				}
				return nil
			}
		}
	}
	// worker died: a crash of the compiler process (e.g. fatal stack overflow).
	w.cmd.Process.Kill()
	w.cmd.Wait()
	p.free <- nil
	return &BuildError{Err: fmt.Errorf("compiler process died: %v", err), Panic: true}
}

// Close stops the workers.
func (p *Pool) Close() {
	for i := 0; i < p.n; i++ {
		w := <-p.free
		if w != nil {
			w.in.Close()
			w.cmd.Wait()
		}
	}
}
