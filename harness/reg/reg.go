// Package reg is the registry of checks (one per property).
package reg

import (
	"verif/core"
	"verif/gjs"
)

// RunFunc decides one property on the current working tree of /repo.
type RunFunc func(c *core.Ctx, pool *gjs.Pool)

// Check is a registered check.
type Check struct {
	ID    string
	Level string // evidence level: model_checking | exploration | ...
	Run   RunFunc
}

// Checks maps property ids to checks.
var Checks = map[string]Check{}

// Register adds a check.
func Register(id, level string, f RunFunc) { Checks[id] = Check{ID: id, Level: level, Run: f} }
