//go:build prop_c10

package main

import _ "verif/props/c10"
