//go:build prop_c13

package main

import _ "verif/props/c13"
