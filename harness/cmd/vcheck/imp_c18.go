//go:build prop_c18

package main

import _ "verif/props/c18"
