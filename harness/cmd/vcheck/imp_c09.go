//go:build prop_c09

package main

import _ "verif/props/c09"
