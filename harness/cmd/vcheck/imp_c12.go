//go:build prop_c12

package main

import _ "verif/props/c12"
