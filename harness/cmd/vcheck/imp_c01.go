//go:build prop_c01

package main

import _ "verif/props/c01"
