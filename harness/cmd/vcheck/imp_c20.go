//go:build prop_c20

package main

import _ "verif/props/c20"
