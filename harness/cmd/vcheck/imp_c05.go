//go:build prop_c05

package main

import _ "verif/props/c05"
