//go:build prop_c15

package main

import _ "verif/props/c15"
