//go:build prop_c14

package main

import _ "verif/props/c14"
