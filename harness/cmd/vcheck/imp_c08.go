//go:build prop_c08

package main

import _ "verif/props/c08"
