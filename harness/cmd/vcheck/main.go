// vcheck decides the properties of /verif/properties.jsonl on /repo's working tree.
//
//	vcheck <Cnn> quick|thorough
package main

import (
	"fmt"
	"os"
	"sort"

	"verif/core"
	"verif/gjs"
	"verif/reg"
)

func main() {
	gjs.MaybeWorker()
	if len(os.Args) < 3 {
		ids := []string{}
		for id := range reg.Checks {
			ids = append(ids, id)
		}
		sort.Strings(ids)
		fmt.Fprintf(os.Stderr, "usage: vcheck <id> quick|thorough   (ids: %v)\n", ids)
		os.Exit(2)
	}
	id, tier := os.Args[1], os.Args[2]
	ck, ok := reg.Checks[id]
	if !ok {
		fmt.Fprintf(os.Stderr, "unknown check %s\n", id)
		os.Exit(2)
	}
	if tier != "quick" && tier != "thorough" {
		fmt.Fprintf(os.Stderr, "tier must be quick or thorough\n")
		os.Exit(2)
	}
	gjs.Init()
	c, err := core.NewCtx(id, tier)
	if err != nil {
		fmt.Fprintln(os.Stderr, err)
		os.Exit(2)
	}
	pool := gjs.NewPool(c.Workers)
	if rd := os.Getenv("VERIF_REPLAY"); rd != "" && os.Getenv("VERIF_REPLAY_NATIVE") == "" {
		if rc := genericReplay(id, rd, pool); rc >= 0 {
			pool.Close()
			c.Close()
			os.Exit(rc)
		}
	}
	code := 2
	func() {
		defer func() {
			if r := recover(); r != nil {
				c.Infra(fmt.Errorf("harness panic: %v", r))
			}
		}()
		ck.Run(c, pool)
	}()
	code = c.Finish(ck.Level)
	pool.Close()
	c.Close()
	os.Exit(code)
}
