// vcheck decides the properties of /verif/properties.jsonl on /repo's working tree.
//
//	vcheck <Cnn> quick|thorough
package main

import (
	"fmt"
	"os"
	"sort"

	"verif/core"
	"verif/gjs"
	"verif/reg"

	_ "verif/props/c01"
	_ "verif/props/c02"
	_ "verif/props/c03"
	_ "verif/props/c04"
	_ "verif/props/c05"
	_ "verif/props/c06"
	_ "verif/props/c07"
	_ "verif/props/c08"
	_ "verif/props/c09"
	_ "verif/props/c10"
	_ "verif/props/c11"
	_ "verif/props/c12"
	_ "verif/props/c13"
	_ "verif/props/c14"
	_ "verif/props/c15"
	_ "verif/props/c16"
	_ "verif/props/c17"
	_ "verif/props/c18"
	_ "verif/props/c19"
	_ "verif/props/c20"
)

func main() {
	gjs.MaybeWorker()
	if len(os.Args) < 3 {
		ids := []string{}
		for id := range reg.Checks {
			ids = append(ids, id)
		}
		sort.Strings(ids)
		fmt.Fprintf(os.Stderr, "usage: vcheck <id> quick|thorough   (ids: %v)\n", ids)
		os.Exit(2)
	}
	id, tier := os.Args[1], os.Args[2]
	ck, ok := reg.Checks[id]
	if !ok {
		fmt.Fprintf(os.Stderr, "unknown check %s\n", id)
		os.Exit(2)
	}
	if tier != "quick" && tier != "thorough" {
		fmt.Fprintf(os.Stderr, "tier must be quick or thorough\n")
		os.Exit(2)
	}
	gjs.Init()
	c, err := core.NewCtx(id, tier)
	if err != nil {
		fmt.Fprintln(os.Stderr, err)
		os.Exit(2)
	}
	pool := gjs.NewPool(c.Workers)
	code := 2
	func() {
		defer func() {
			if r := recover(); r != nil {
				c.Infra(fmt.Errorf("harness panic: %v", r))
			}
		}()
		ck.Run(c, pool)
	}()
	code = c.Finish(ck.Level)
	pool.Close()
	c.Close()
	os.Exit(code)
}
