//go:build prop_c06

package main

import _ "verif/props/c06"
