//go:build prop_c19

package main

import _ "verif/props/c19"
