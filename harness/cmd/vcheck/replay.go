package main

import (
	"fmt"
	"os"
	"path/filepath"
	"strconv"
	"strings"
	"time"

	"verif/gjs"
)

// genericReplay re-decides one recorded scenario: the replay directory holds the
// minimal program (prog/), the predicted observation (predicted.txt: printed
// lines, optionally a last line "end=<kind>") and optionally mode.txt
// ("<mode> mask=<n>") / script.json.  The program is rebuilt with the compiler
// from the current working tree of /repo and run again.
// Returns the process exit code, or -1 if the directory is not of this form.
func genericReplay(id, dir string, pool *gjs.Pool) int {
	pred, err := os.ReadFile(filepath.Join(dir, "predicted.txt"))
	if err != nil {
		return -1
	}
	files := map[string]string{}
	root := filepath.Join(dir, "prog")
	filepath.Walk(root, func(p string, info os.FileInfo, err error) error {
		if err == nil && !info.IsDir() {
			b, _ := os.ReadFile(p)
			rel, _ := filepath.Rel(root, p)
			files[rel] = string(b)
		}
		return nil
	})
	if len(files) == 0 {
		return -1
	}
	var want []string
	wantEnd := ""
	for _, l := range strings.Split(strings.TrimSpace(string(pred)), "\n") {
		if strings.HasPrefix(l, "end=") {
			wantEnd = strings.TrimPrefix(l, "end=")
			continue
		}
		if l != "" {
			want = append(want, l)
		}
	}
	minify, arg := false, "0"
	if b, err := os.ReadFile(filepath.Join(dir, "mode.txt")); err == nil {
		s := string(b)
		minify = strings.Contains(s, "minified")
		if i := strings.Index(s, "mask="); i >= 0 {
			arg = strings.TrimSpace(s[i+5:])
		}
	}
	scratch, _ := os.MkdirTemp("", "verif-replay-")
	defer os.RemoveAll(scratch)
	prog := gjs.Prog{Files: files}
	pdir, err := prog.Materialise(scratch)
	if err != nil {
		fmt.Fprintln(os.Stderr, err)
		return 2
	}
	out := filepath.Join(pdir, "out.js")
	if err := pool.Build(pdir, out, gjs.Opts{Minify: minify}); err != nil {
		fmt.Printf("VIOLATION property=%s replay=%s\n  the compiler fails on the recorded program: %v\n", id, dir, err)
		return 1
	}
	if _, err := strconv.Atoi(arg); err != nil {
		arg = "0"
	}
	obs, err := gjs.NodeMulti(out, []gjs.Job{{Args: []string{arg}, MaxSteps: 2000000}}, 2*time.Minute)
	if err != nil {
		fmt.Fprintln(os.Stderr, err)
		return 2
	}
	got := obs[0].Lines
	var kept []string
	for _, l := range got {
		if strings.HasPrefix(l, "# ") {
			continue
		}
		if l == "-0" {
			l = "0"
		}
		kept = append(kept, l)
	}
	ok := len(kept) == len(want) && (wantEnd == "" || wantEnd == obs[0].End)
	if ok {
		for i := range want {
			if kept[i] != want[i] {
				ok = false
			}
		}
	}
	if ok {
		fmt.Printf("%s replay %s: held (the recorded scenario now prints the predicted observation)\n", id, dir)
		return 0
	}
	fmt.Printf("VIOLATION property=%s replay=%s\n  predicted %v end=%s, observed %v end=%s %s\n", id, dir, want, wantEnd, kept, obs[0].End, obs[0].Msg)
	return 1
}
