//go:build prop_c16

package main

import _ "verif/props/c16"
