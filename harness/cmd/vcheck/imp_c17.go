//go:build prop_c17

package main

import _ "verif/props/c17"
