//go:build prop_c07

package main

import _ "verif/props/c07"
