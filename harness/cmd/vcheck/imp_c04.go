//go:build prop_c04

package main

import _ "verif/props/c04"
