//go:build prop_c02

package main

import _ "verif/props/c02"
