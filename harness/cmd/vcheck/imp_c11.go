//go:build prop_c11

package main

import _ "verif/props/c11"
