//go:build prop_c03

package main

import _ "verif/props/c03"
