// Package core holds what every check shares: run context (tier, seed, scratch
// directory), the evidence writer, the known-findings matcher and the
// VIOLATION / replay protocol.
package core

import (
	"bufio"
	"crypto/sha256"
	"encoding/hex"
	"encoding/json"
	"fmt"
	"os"
	"path/filepath"
	"regexp"
	"sort"
	"strconv"
	"strings"
	"sync"
	"time"
)

// Root is /verif (the directory containing spec/, evidence/, replays/).
var Root = "/verif"

// Ctx is one run of one check.
type Ctx struct {
	ID      string
	Tier    string // quick | thorough
	Seed    int64
	Scratch string // removed at the end
	Start   time.Time
	Workers int

	mu         sync.Mutex
	Cov        map[string]any
	Samples    []any
	Assume     []string
	violations int
	known      map[string]int
	distinct   map[string]struct{}
	findings   []Finding
	InfraErr   error
	lastPhase  time.Time
}

// Finding is one line of known_findings.txt.
type Finding struct {
	Fixed    bool
	Property string
	Key      string // classifier key, e.g. select_send_closed
	Text     string
}

func init() {
	if r := os.Getenv("VERIF_ROOT"); r != "" {
		Root = r
	}
}

// NewCtx prepares a run.
func NewCtx(id, tier string) (*Ctx, error) {
	seed := int64(1)
	if s := os.Getenv("VERIF_SEED"); s != "" {
		if v, err := strconv.ParseInt(s, 10, 64); err == nil {
			seed = v
		}
	}
	base := os.Getenv("VERIF_SCRATCH")
	if base == "" {
		base = os.TempDir()
	}
	scratch, err := os.MkdirTemp(base, "verif-"+id+"-")
	if err != nil {
		return nil, err
	}
	c := &Ctx{ID: id, Tier: tier, Seed: seed, Scratch: scratch, Start: time.Now(), Workers: 16,
		Cov: map[string]any{}, known: map[string]int{}, distinct: map[string]struct{}{}}
	if w := os.Getenv("VERIF_WORKERS"); w != "" {
		if v, err := strconv.Atoi(w); err == nil && v > 0 {
			c.Workers = v
		}
	}
	c.findings, err = LoadFindings(filepath.Join(Root, "known_findings.txt"))
	if err != nil {
		return nil, err
	}
	return c, nil
}

// Close removes the scratch directory.
func (c *Ctx) Close() {
	if os.Getenv("VERIF_KEEP") == "" {
		os.RemoveAll(c.Scratch)
	}
}

// Thorough reports whether this is the thorough tier.
func (c *Ctx) Thorough() bool { return c.Tier == "thorough" }

// Pick returns q in the quick tier and t in the thorough tier.
func (c *Ctx) Pick(q, t int) int {
	if c.Thorough() {
		return t
	}
	return q
}

// Add adds n to an integer coverage counter.
func (c *Ctx) Add(key string, n int) {
	c.mu.Lock()
	defer c.mu.Unlock()
	v, _ := c.Cov[key].(int)
	c.Cov[key] = v + n
}

// Set sets a coverage key.
func (c *Ctx) Set(key string, v any) {
	c.mu.Lock()
	defer c.mu.Unlock()
	c.Cov[key] = v
}

// Get returns an int counter.
func (c *Ctx) Get(key string) int {
	c.mu.Lock()
	defer c.mu.Unlock()
	v, _ := c.Cov[key].(int)
	return v
}

// Distinct records a canonical key of a non-trivial case; distinct_nontrivial is
// the size of this set.
func (c *Ctx) Distinct(key string) {
	h := sha256.Sum256([]byte(key))
	c.mu.Lock()
	c.distinct[string(h[:12])] = struct{}{}
	c.mu.Unlock()
}

// Sample keeps up to 5 sample cases.
func (c *Ctx) Sample(v any) {
	c.mu.Lock()
	defer c.mu.Unlock()
	if len(c.Samples) < 5 {
		c.Samples = append(c.Samples, v)
	}
}

// Assumef records an assumption for the evidence file.
func (c *Ctx) Assumef(format string, a ...any) {
	c.mu.Lock()
	defer c.mu.Unlock()
	s := fmt.Sprintf(format, a...)
	for _, x := range c.Assume {
		if x == s {
			return
		}
	}
	c.Assume = append(c.Assume, s)
}

// LoadFindings parses known_findings.txt. Lines:
//
//	finding: property=C03 key=select_send_closed <text>
//	fixed: property=C03 <commit> <text>
func LoadFindings(path string) ([]Finding, error) {
	f, err := os.Open(path)
	if err != nil {
		if os.IsNotExist(err) {
			return nil, nil
		}
		return nil, err
	}
	defer f.Close()
	var out []Finding
	re := regexp.MustCompile(`^(finding|fixed):\s+property=(C\d+)\s+(?:key=(\S+)\s+)?(.*)$`)
	sc := bufio.NewScanner(f)
	for sc.Scan() {
		l := strings.TrimSpace(sc.Text())
		if l == "" || strings.HasPrefix(l, "#") {
			continue
		}
		m := re.FindStringSubmatch(l)
		if m == nil {
			continue
		}
		out = append(out, Finding{Fixed: m[1] == "fixed", Property: m[2], Key: m[3], Text: m[4]})
	}
	return out, sc.Err()
}

// Case is one rejected observation handed to Report.
type Case struct {
	// Keys are the classifier keys this case satisfies (computed by the check from
	// the scenario, most specific first). A case is a known finding iff one of them
	// is listed (not as fixed) for this property.
	Keys []string
	// Summary is one line describing what failed.
	Summary string
	// Files are written into the replay directory (name -> content).
	Files map[string]string
}

// Report handles a rejected observation: KNOWN-FINDING line or VIOLATION with
// a replay directory. It returns true when it was a (new) violation.
func (c *Ctx) Report(cs Case) bool {
	for _, k := range cs.Keys {
		for _, f := range c.findings {
			if !f.Fixed && f.Property == c.ID && f.Key == k {
				c.mu.Lock()
				c.known[k]++
				c.mu.Unlock()
				return false
			}
		}
	}
	h := sha256.Sum256([]byte(cs.Summary + fmt.Sprint(cs.Files)))
	dir := filepath.Join(Root, "replays", c.ID, hex.EncodeToString(h[:6]))
	if os.Getenv("VERIF_NO_EVIDENCE") != "" {
		dir = filepath.Join(os.TempDir(), "verif-mutant-replays", c.ID, hex.EncodeToString(h[:6]))
	}
	c.mu.Lock()
	c.violations++
	n := c.violations
	c.mu.Unlock()
	if n > 20 { // do not flood the disk; the count is still reported
		fmt.Printf("  (violation %d, no replay written) %s\n", n, firstLine(cs.Summary))
		return true
	}
	os.MkdirAll(dir, 0o755)
	for name, content := range cs.Files {
		p := filepath.Join(dir, name)
		os.MkdirAll(filepath.Dir(p), 0o755)
		os.WriteFile(p, []byte(content), 0o644)
	}
	os.WriteFile(filepath.Join(dir, "SUMMARY.txt"), []byte(cs.Summary+"\nkeys: "+strings.Join(cs.Keys, ",")+"\n"), 0o644)
	fmt.Printf("VIOLATION property=%s replay=%s\n", c.ID, dir)
	fmt.Printf("  %s\n", firstLine(cs.Summary))
	return true
}

func firstLine(s string) string {
	if i := strings.IndexByte(s, '\n'); i >= 0 {
		return s[:i]
	}
	return s
}

// Violations returns the number of new violations so far.
func (c *Ctx) Violations() int {
	c.mu.Lock()
	defer c.mu.Unlock()
	return c.violations
}

// Finish prints KNOWN-FINDING lines, writes the evidence file and returns the
// process exit code.
func (c *Ctx) Finish(level string) int {
	c.mu.Lock()
	defer c.mu.Unlock()
	keys := make([]string, 0, len(c.known))
	for k := range c.known {
		keys = append(keys, k)
	}
	sort.Strings(keys)
	kf := map[string]int{}
	for _, k := range keys {
		text := ""
		for _, f := range c.findings {
			if f.Key == k && f.Property == c.ID {
				text = f.Text
			}
		}
		fmt.Printf("KNOWN-FINDING: property=%s key=%s (%d cases) %s\n", c.ID, k, c.known[k], text)
		kf[k] = c.known[k]
	}
	if c.InfraErr != nil && c.violations == 0 {
		fmt.Fprintf(os.Stderr, "INFRASTRUCTURE ERROR (not a verdict): %v\n", c.InfraErr)
		return 2
	}
	cov := map[string]any{}
	if c.InfraErr != nil {
		// Every VIOLATION line printed so far was decided by the verdict rule on a real
		// artefact (observation, rejection by the specification, guard). A later
		// infrastructure problem (typically: the defect makes a batch of programs hang
		// until the runner's time limit) leaves the exploration incomplete but does not
		// take those verdicts back.
		fmt.Fprintf(os.Stderr, "INFRASTRUCTURE ERROR after %d violation(s) were decided (exploration incomplete, the verdicts stand): %v\n", c.violations, c.InfraErr)
		cov["incomplete_infrastructure_error"] = c.InfraErr.Error()
	}
	for k, v := range c.Cov {
		cov[k] = v
	}
	cov["distinct_nontrivial"] = len(c.distinct)
	if _, ok := cov["evaluations"]; !ok {
		cov["evaluations"] = 0
	}
	samples := c.Samples
	if samples == nil {
		samples = []any{}
	}
	cov["samples"] = samples
	if len(kf) > 0 {
		cov["known_findings_hit"] = kf
	}
	ev := map[string]any{
		"property_id": c.ID,
		"tier":        c.Tier,
		"seed":        c.Seed,
		"level":       level,
		"coverage":    cov,
		"assumptions": c.Assume,
		"wall_s":      time.Since(c.Start).Seconds(),
		"violations":  c.violations,
	}
	if c.Assume == nil {
		ev["assumptions"] = []string{}
	}
	b, _ := json.MarshalIndent(ev, "", " ")
	evDir := filepath.Join(Root, "evidence")
	if os.Getenv("VERIF_NO_EVIDENCE") != "" { // sensitivity runs against a scratch tree
		evDir = c.Scratch
	}
	os.MkdirAll(evDir, 0o755)
	if err := os.WriteFile(filepath.Join(evDir, c.ID+".json"), append(b, '\n'), 0o644); err != nil {
		fmt.Fprintf(os.Stderr, "cannot write evidence: %v\n", err)
		return 2
	}
	if c.violations > 0 {
		fmt.Printf("%s %s: %d violation(s)\n", c.ID, c.Tier, c.violations)
		return 1
	}
	fmt.Printf("%s %s: held on everything explored (evaluations=%v distinct_nontrivial=%d states=%v wall=%.0fs)\n",
		c.ID, c.Tier, cov["evaluations"], len(c.distinct), cov["states"], time.Since(c.Start).Seconds())
	return 0
}

// Phase records the wall time since the previous Phase call under coverage.phases_s.
func (c *Ctx) Phase(name string) {
	c.mu.Lock()
	defer c.mu.Unlock()
	now := time.Now()
	if c.lastPhase.IsZero() {
		c.lastPhase = c.Start
	}
	m, _ := c.Cov["phases_s"].(map[string]float64)
	if m == nil {
		m = map[string]float64{}
	}
	m[name] = float64(int(now.Sub(c.lastPhase).Seconds()*10)) / 10
	c.Cov["phases_s"] = m
	c.lastPhase = now
	if os.Getenv("VERIF_VERBOSE") != "" {
		fmt.Fprintf(os.Stderr, "[%s] phase %s done in %.1fs\n", c.ID, name, m[name])
	}
}

// Infra records an infrastructure failure (exit 2, never a violation).
func (c *Ctx) Infra(err error) {
	c.mu.Lock()
	defer c.mu.Unlock()
	if c.InfraErr == nil {
		c.InfraErr = err
	}
}

// ParMap runs f on 0..n-1 with at most c.Workers concurrently.
func (c *Ctx) ParMap(n int, f func(i int)) {
	sem := make(chan struct{}, c.Workers)
	var wg sync.WaitGroup
	for i := 0; i < n; i++ {
		wg.Add(1)
		sem <- struct{}{}
		go func(i int) {
			defer wg.Done()
			defer func() { <-sem }()
			f(i)
		}(i)
	}
	wg.Wait()
}
