// node runner.js <out.js> <jobs.json>
//
// Executes the emitted JavaScript many times in one Node process, each time in a
// fresh vm context, with the run time's three sources of nondeterminism scripted
// exactly as js/sched.js does for a stand-alone process:
//   Math.random (select pick), Date.now (time-slice break), timer firing order.
// The event loop is virtual: all timers are due immediately and are fired one at
// a time in the scripted order until none is left (the process would exit), the
// program calls process.exit (deadlock report), or an exception escapes.
//
// jobs.json: [{args:[..], script:{rand:[],now:[],timers:[],nowDefault:n,timerDefault:n}, maxSteps:n}, ...]
// Output: one JSON line per job: {out:"...", end:"exit"|"exitcode"|"crash"|"timeout", code:n, errName:"", errMsg:""}
'use strict';
const vm = require('vm'), fs = require('fs'), util = require('util');
const file = process.argv[2];
const src = fs.readFileSync(file, 'utf8');
const compiled = new vm.Script(src, { filename: file });
const jobs = JSON.parse(fs.readFileSync(process.argv[3], 'utf8'));

class ExitSignal { constructor(code) { this.code = code; } }

function runJob(job) {
  const sc = job.script || {};
  const rand = sc.rand || [], nowInc = sc.now || [], pick = sc.timers || [];
  const nowDefault = sc.nowDefault || 0, timerDefault = sc.timerDefault || 0;
  let ri = 0, ni = 0, ti = 0, clock = 1700000000000;
  let pending = [], seq = 1;
  const out = [];
  const res = { out: '', end: null, code: 0, errName: '', errMsg: '' };
  const sandbox = {
    console: {
      log: (...a) => out.push(util.format(...a) + '\n'),
      error: (...a) => out.push(util.format(...a) + '\n'),
      warn: (...a) => out.push(util.format(...a) + '\n'),
    },
    process: {
      argv: ['node', file].concat(job.args || []),
      env: {},
      exit: (c) => { throw new ExitSignal(c === undefined ? 0 : c); },
      stderr: { write: (s) => { out.push(String(s)); return true; } },
      stdout: { write: (s) => { out.push(String(s)); return true; } },
    },
    require: (m) => { throw new Error('module ' + m + ' is not available in the verification sandbox'); },
    TextDecoder, TextEncoder,
    setTimeout: (f, t, ...a) => { const h = { __verif: seq++, f, a }; pending.push(h); return h; },
    clearTimeout: (h) => { pending = pending.filter(x => x !== h); },
    __rand: () => { const v = ri < rand.length ? rand[ri] : 0; ri++; return v; },
    __now: () => { clock += ni < nowInc.length ? nowInc[ni] : nowDefault; ni++; return clock; },
    __cb: null,
  };
  sandbox.global = sandbox;
  const ctx = vm.createContext(sandbox);
  vm.runInContext('Math.random = __rand; Date.now = __now;', ctx);
  const guard = (fn) => {
    try { fn(); } catch (e) {
      if (e instanceof ExitSignal) { res.end = 'exitcode'; res.code = e.code; return; }
      if (e && e.code === 'ERR_SCRIPT_EXECUTION_TIMEOUT') { res.end = 'timeout'; return; }
      res.end = 'crash';
      res.errName = (e && e.name) ? String(e.name) : typeof e;
      res.errMsg = (e && e.message !== undefined) ? String(e.message) : String(e);
    }
  };
  guard(() => compiled.runInContext(ctx, { timeout: 10000 }));
  let steps = 0;
  const maxSteps = job.maxSteps || 100000;
  while (res.end === null && pending.length > 0) {
    let k = ti < pick.length ? pick[ti] : timerDefault; ti++;
    if (k < 0) k = pending.length + k;
    k = ((k % pending.length) + pending.length) % pending.length;
    const h = pending.splice(k, 1)[0];
    sandbox.__cb = () => h.f(...h.a);
    guard(() => vm.runInContext('__cb()', ctx, { timeout: 10000 }));
    if (++steps > maxSteps) { res.end = 'timeout'; }
  }
  if (res.end === null) res.end = 'exit';
  res.out = out.join('');
  return res;
}

for (const job of jobs) {
  process.stdout.write(JSON.stringify(runJob(job)) + '\n');
}
