// Node preload (node -r sched.js out.js): replaces the three sources of
// nondeterminism of the GopherJS run time by scripted versions so that the
// harness can force a particular resolution:
//   Math.random          -> the pick among ready select cases ($select)
//   Date.now             -> the time-slice break in $runScheduled (elapsed > 4 ms)
//   setTimeout/clearTimeout -> the order in which due timer callbacks fire
// Script: env VERIF_SCRIPT = JSON {rand:[..], now:[..], timers:[..], nowDefault:n, timerDefault:n}
//   rand[i]   value returned by the i-th Math.random() call (default 0)
//   now[i]    increment (ms) added by the i-th Date.now() call (default nowDefault, 0 = never break)
//   timers[i] index of the pending timer fired at the i-th firing (negative: from the end; default timerDefault)
// All timers are treated as due immediately (the programs under test use zero delays only).
'use strict';
const script = JSON.parse(process.env.VERIF_SCRIPT || '{}');
const rand = script.rand || [], nowInc = script.now || [], pick = script.timers || [];
const nowDefault = script.nowDefault || 0, timerDefault = script.timerDefault || 0;
let ri = 0, ni = 0, ti = 0, clock = 1700000000000;
Math.random = () => { const v = ri < rand.length ? rand[ri] : 0; ri++; return v; };
Date.now = () => { clock += ni < nowInc.length ? nowInc[ni] : nowDefault; ni++; return clock; };

const realSetTimeout = global.setTimeout, realClearTimeout = global.clearTimeout;
let pending = [], armed = false, seq = 1;
function arm() { if (!armed && pending.length > 0) { armed = true; realSetTimeout(fire, 0); } }
function fire() {
  armed = false;
  if (pending.length === 0) return;
  let k = ti < pick.length ? pick[ti] : timerDefault; ti++;
  if (k < 0) k = pending.length + k;
  k = ((k % pending.length) + pending.length) % pending.length;
  const h = pending.splice(k, 1)[0];
  arm();
  h.f(...h.a);
}
global.setTimeout = (f, t, ...a) => { const h = { __verif: seq++, f, a }; pending.push(h); arm(); return h; };
global.clearTimeout = (h) => {
  if (h && typeof h === 'object' && h.__verif !== undefined) { pending = pending.filter(x => x !== h); }
  else if (h !== undefined && h !== null) realClearTimeout(h);
};
