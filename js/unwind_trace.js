// Trace wrappers for C08 (implementation-shaped model spec/UnwindJS.tla, validated by
// spec/UnwindJSTrace.tla). The harness inserts this text between the prelude and the
// first `$packages["` line of the emitted file (gjs.Opts.Inject); the run time under test
// stays the unmodified goroutines.js. Every event is one console line
//   @UJ {"e":..., "ps": panicStack.length, "ds": deferStack.length,
//        "pn": $panicStackDepth === null, "off": $stackDepthOffset, "x": ...}
// logged on entry and on exit of $callDeferred (x: fromPanic / left by an exception),
// $panic (exit: always by an exception) and $recover (exit x: 1 = a value was returned).
// The wrapper of $recover adds a JavaScript frame between the deferred function and
// $recover; it compensates with $stackDepthOffset exactly as $methodExpr does, and logs
// outside the compensated region, so the logged offset is the program's own.
(function() {
    var realCallDeferred = $callDeferred, realPanic = $panic, realRecover = $recover;
    var log = function(e, x) {
        console.log("@UJ " + JSON.stringify({
            e: e, ps: $curGoroutine.panicStack.length, ds: $curGoroutine.deferStack.length,
            pn: $panicStackDepth === null, off: $stackDepthOffset, x: x
        }));
    };
    $callDeferred = function(deferred, jsErr, fromPanic) {
        log("cd.in", fromPanic ? 1 : 0);
        var threw = 1;
        try {
            realCallDeferred(deferred, jsErr, fromPanic);
            threw = 0;
        } finally {
            log("cd.out", threw);
        }
    };
    $panic = function(value) {
        log("panic.in", 0);
        try {
            realPanic(value);
        } finally {
            log("panic.out", 1);
        }
    };
    $recover = function() {
        log("recover.in", 0);
        var r;
        $stackDepthOffset--;
        try {
            r = realRecover();
        } finally {
            $stackDepthOffset++;
        }
        log("recover.out", r === $ifaceNil ? 0 : 1);
        return r;
    };
})();
