// Trace wrappers for C10 (implementation-shaped model spec/InitJS.tla, validated by
// spec/InitJSTrace.tla). The harness (harness/props/c10/initjs.go) inserts
//   var $ijPkgs = {"vp": 1, "vp/p2": 2, ...};      (the scenario's own packages)
// followed by this text just BEFORE the line `$callForAllPackages("$finishSetup");` of the
// emitted file, i.e. after every package body was evaluated and before the boot sequence.
// The emitted code itself is untouched. Every event is one console line
//   @IJ {"e": <event>, "p": <package index or 0>, "s": <0|1>, "id": 0, "mf": <0|1>}
//   finishSetup | synth | initLinknames | rtinit | go     the boot steps (on entry)
//   I+ p      the original $init of p entered by a call
//   X  p      $packages[p].$init assigned (the self-replacement; also on every resumption)
//   I0 p      the replaced $init of p called
//   I- p s mf the frame entered by I+ returned (s = 1: an object with $blk), mf = $mainFinished
//   R+ p / R- p s mf   the saved frame of p re-entered through its $blk / returned
// The wrappers only observe: the wrapped functions get the same `this` and arguments and
// their return values (and exceptions) pass through; $packages[p].$init becomes an
// accessor property whose setter records the assignment and keeps the assigned function
// (wrapped for logging) -- reads and calls behave as before.
(function() {
    var log = function(e, p, s, mf) {
        console.log("@IJ " + JSON.stringify({e: e, p: p, s: s, id: 0, mf: mf ? 1 : 0}));
    };
    var framesSeen = new WeakSet();
    var isBlk = function(r) { return (r && r.$blk !== undefined) ? 1 : 0; };
    // the frame object {$blk: $init, $s, $r} returned by a suspended $init: log its re-entry
    var wrapFrame = function(idx, f) {
        if (!f || f.$blk === undefined || framesSeen.has(f)) { return; }
        framesSeen.add(f);
        var blk = f.$blk;
        f.$blk = function() {
            log("R+", idx, 0, false);
            var r = blk.apply(this, arguments);
            wrapFrame(idx, r);
            log("R-", idx, isBlk(r), $mainFinished);
            return r;
        };
    };
    var wrapPkg = function(path, idx) {
        var pkg = $packages[path];
        if (!pkg || typeof pkg.$init !== "function") { return; }
        var orig = pkg.$init;
        var first = function() {
            log("I+", idx, 0, false);
            var r = orig.apply(this, arguments);
            wrapFrame(idx, r);
            log("I-", idx, isBlk(r), $mainFinished);
            return r;
        };
        var cur = first;
        Object.defineProperty(pkg, "$init", {
            configurable: true, enumerable: true,
            get: function() { return cur; },
            set: function(fn) {
                log("X", idx, 0, false);
                cur = function() {
                    log("I0", idx, 0, false);
                    return fn.apply(this, arguments);
                };
            }
        });
    };
    var names = Object.keys($ijPkgs);
    for (var i = 0; i < names.length; i++) { wrapPkg(names[i], $ijPkgs[names[i]]); }

    // boot steps
    var rt = $packages["runtime"];
    if (rt && typeof rt.$init === "function") {
        var rtInit = rt.$init;
        rt.$init = function() {
            log("rtinit", 0, 0, false);
            return rtInit.apply(this, arguments);
        };
    }
    var realCall = $callForAllPackages, realSynth = $synthesizeMethods, realGo = $go, goSeen = false;
    $callForAllPackages = function(methodName) {
        log(methodName === "$finishSetup" ? "finishSetup" : (methodName === "$initLinknames" ? "initLinknames" : "call:" + methodName), 0, 0, false);
        return realCall.apply(this, arguments);
    };
    $synthesizeMethods = function() {
        log("synth", 0, 0, false);
        return realSynth.apply(this, arguments);
    };
    $go = function(fun, args) {
        if (!goSeen) { goSeen = true; log("go", 0, 0, false); }
        return realGo.apply(this, arguments);
    };
})();
